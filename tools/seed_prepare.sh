#!/bin/bash
# usage: tools/seed_prepare.sh <property id> <round tag>   creates /tmp/seed-<id><tag>/{wt,target,property.json,prompt.txt}
ID=$1; TAG=$2; D=/tmp/seed-$ID$TAG
mkdir -p $D && git -C /repo worktree add -q $D/wt HEAD && cp -a /repo/target $D/target || exit 2
python3 - "$ID" "$D" <<'PY'
import json,sys
for l in open('/verif/properties.jsonl'):
    p=json.loads(l)
    if p['id']==sys.argv[1]:
        open(sys.argv[2]+'/property.json','w').write(json.dumps(p,indent=1,ensure_ascii=False))
PY
python3 /verif/tools/seed_prompt.py $ID seed-$ID$TAG > $D/prompt.txt
echo "prepared $D"
