#!/bin/bash
# usage: tools/try_seed.sh <patch.diff> <check ids...>   applies the patch to /repo, runs the quick checks, restores /repo
P=$1; shift
exec 9>/tmp/repo.lock; flock 9   # the thorough sweep builds under the same lock
cd /repo && git status --short | grep -q . && { echo "repo not clean"; exit 2; }
git -C /repo apply "$P" || { echo "patch does not apply"; exit 2; }
for c in "$@"; do
  out=$(cd /verif && VERIF_EVIDENCE_DIR=/tmp/ev_seed VERIF_REPLAY_DIR=/tmp/rp_seed ./check $c quick 2>&1); rc=$?
  echo "$c rc=$rc $(echo "$out" | grep -m1 'what:' | cut -c1-260)"
done
git -C /repo checkout -- . && git -C /repo status --short
