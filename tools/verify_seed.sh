#!/bin/bash
# usage: tools/verify_seed.sh <id> <test-filter> [extra cargo test args]
# Confirms in the agent's scratch worktree: unit tests pass with the defect (demo excluded), the demo fails with it and passes without it.
ID=$1; FILTER=${2:-seeded_demo}; PKG=${PKG:--p worterbuch --lib}
D=/tmp/seed-$ID; W=$D/wt; export CARGO_TARGET_DIR=$D/target
[ -z "${PKG_SET:-}" ] && M=$(jq -r '.demo_pkg // empty' $D/meta.json 2>/dev/null) && [ -n "$M" ] && PKG=$M
cd $W || exit 2
git checkout -q -- . && git clean -fdq -e target
git apply $D/patch.diff || { echo "patch does not apply"; exit 2; }
echo "--- unit tests with the defect (no demo)"
cargo test --offline -p worterbuch --lib -p worterbuch-common -p worterbuch-client -p worterbuch-cluster-orchestrator 2>&1 | grep -E "^test result|FAILED|panicked" | head -8
git apply $D/demo.diff || { echo "demo does not apply"; exit 2; }
echo "--- demo with the defect (must fail)"
cargo test --offline $PKG $FILTER 2>&1 | grep -E "^test result|^test .*(ok|FAILED)" | head -6
git apply -R $D/patch.diff || { echo "cannot revert defect"; exit 2; }
echo "--- demo without the defect (must pass)"
cargo test --offline $PKG $FILTER 2>&1 | grep -E "^test result|^test .*(ok|FAILED)" | head -6
git checkout -q -- . && git clean -fdq -e target
