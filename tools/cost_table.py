#!/usr/bin/env python3
"""usage: cost_table.py <quick evidence dir> <thorough evidence dir>   prints the markdown rows of DESIGN.md §7"""
import json,sys,os
def row(d,i):
    p=f"{d}/{i}.json"
    if not os.path.exists(p): return "—"
    e=json.load(open(p)); c=e.get("coverage",{})
    ex=c.get("explorations",{})
    parts=[]
    if ex:
        tr=sum(v.get("transitions",0) for v in ex.values())
        depths=sorted({v.get("depth_completed",0) for v in ex.values()})
        caps=sum(1 for v in ex.values() if v.get("cap_hit"))
        parts.append(f"{len(ex)} scenario(s), depth {depths[0]}–{depths[-1]}" if len(depths)>1 else f"{len(ex)} scenario(s), depth {depths[0]}")
        parts.append(f"{tr:.1e} transitions".replace("e+0","·10^").replace("e+","·10^"))
        if caps: parts.append(f"{caps} capped")
    else:
        parts.append(f"{c.get('evaluations',0):.1e} evaluations".replace("e+0","·10^").replace("e+","·10^"))
    parts.append(f"{e.get('wall_s',0):.0f} s")
    return ", ".join(parts)
q,t=sys.argv[1],sys.argv[2]
print("| id | quick | thorough |\n|---|---|---|")
for n in range(1,21):
    i=f"C{n:02d}"
    print(f"| {i} | {row(q,i)} | {row(t,i)} |")
