#!/bin/bash
# Runs the repository's pinned test suite (guard OFF) and compares with /root/.vp/BASELINE.json.
# usage: tools/baseline.sh [repo-dir]   exit 0 iff every stable_pass test passed
REPO=${1:-/repo}
LOG=$(mktemp /tmp/baseline.XXXXXX.log)
cd "$REPO" || exit 2
env -u RUSTFLAGS CARGO_NET_OFFLINE=true cargo nextest run --workspace --no-fail-fast \
  --tool-config-file pb:/w/lib/nextest.toml --profile pb --test-threads 8 --offline >"$LOG" 2>&1
rm -f "$REPO/target/nextest/pb/junit.xml.bak"
python3 - "$REPO/target/nextest/pb/junit.xml" <<'PY'
import json,sys
import xml.etree.ElementTree as ET
base=json.load(open('/root/.vp/BASELINE.json'))
passed=set()
for suite in ET.parse(sys.argv[1]).getroot().iter('testsuite'):
    crate=suite.get('name').split('::')[0]
    for tc in suite.iter('testcase'):
        if tc.find('failure') is None and tc.find('error') is None:
            passed.add(f"{crate}::{tc.get('name')}")
            passed.add(f"{suite.get('name')}::{tc.get('name')}")
missing=[t for t in base['stable_pass'] if t not in passed]
print(f"baseline: {len(base['stable_pass'])-len(missing)}/{len(base['stable_pass'])} stable tests passed")
for t in missing: print("  MISSING/FAILED:",t)
sys.exit(1 if missing else 0)
PY
rc=$?
echo "log: $LOG"
exit $rc
