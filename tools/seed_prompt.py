#!/usr/bin/env python3
"""usage: seed_prompt.py <property id> <scratch dir name>   prints the task text for a seeding sub-agent.
The text contains only the property, its code anchors and one-line summaries of changes that were
seeded before (so that the next one differs) - nothing about the checks in /verif."""
import json,sys,glob,os
pid,scratch=sys.argv[1],sys.argv[2]
P={}
for l in open('/verif/properties.jsonl'):
    p=json.loads(l); P[p['id']]=p
p=P[pid]
D=f"/tmp/{scratch}"
anch=p['anchors']
code="; ".join(f"{m['name']} ({m['where']})" for m in anch.get('mechanism',[]))
files=", ".join(anch.get('files',[]))
used=[]
for d in sorted(glob.glob('/verif/seeded/C*')):
    try:
        touched=[l[6:].strip() for l in open(d+'/patch.diff') if l.startswith('+++ b/')]
        if os.path.basename(d).startswith(pid+'-') or any(t in anch.get('files',[]) for t in touched):
            used.append(json.load(open(d+'/meta.json'))['summary'].split('. ')[0][:400])
    except Exception: pass
orch = pid=='C19'
client = pid=='C20'
common = pid=='C14'
pkg = "-p worterbuch-cluster-orchestrator" if orch else ("-p worterbuch-client --lib" if client else ("-p worterbuch-common" if common else "-p worterbuch --lib"))
print(f'''You are helping to test a verification framework by producing ONE realistic, subtle defect ("seeded change") in a Rust code base.

Work ONLY inside the directory {D} . It contains:
- {D}/wt        : a git worktree of the repository babymotte/worterbuch (an in-memory hierarchical key/value store with MQTT-like pub/sub, wildcards, CAS, locks, persistence, leader/follower sync, a cluster orchestrator and a client library). Edit source files here.
- {D}/target    : a pre-built cargo target directory. ALWAYS run cargo with `CARGO_TARGET_DIR={D}/target` and `--offline` (there is no network). Never build into the worktree's own target directory and never touch /repo or /verif (do not even read /verif).
- {D}/property.json : the semantic property your change must break (read it; its "anchors" point at the relevant code).

The property: "{pid} {p['title']}: {p['statement']}"
It is meant to hold over: {p['quantifier']['text']}
Relevant files: {files}
Mechanisms: {code}

Your task:
1. Read the relevant code yourself and make a small, realistic change to the repository source (NOT to tests, NOT to anything under a `verif` directory or behind `cfg(feature = "verif")`) that BREAKS this property, but only in a situation that needs something specific to manifest: a particular input shape, a particular order of operations, a particular state reached first, a boundary value, two call sites that each look fine alone. It must NOT be something ordinary use exposes at once. It should look like a plausible refactoring slip, clean-up or optimisation, not sabotage. Choose the spot yourself; be inventive about which branch, helper or data structure you touch.
   These changes were seeded before - yours must be substantially different (a different function or mechanism, a different triggering situation):
''' + ("\n".join(f"   - {u}" for u in used) if used else "   - (none yet)") + f'''
2. The code must still compile, and the existing test suite must still pass: run
   `cd {D}/wt && CARGO_TARGET_DIR={D}/target cargo test --offline -p worterbuch --lib -p worterbuch-common -p worterbuch-client -p worterbuch-cluster-orchestrator 2>&1 | grep -E "^test result|FAILED|panicked"`
   (all lib unit tests must pass; ignore the integration tests in worterbuch/tests/persistence_*.rs).
3. Write a demonstration that FAILS with your change and PASSES without it: a new Rust unit test appended as `#[cfg(test)] mod seeded_demo {{ ... }}` at the end of a source file of the crate you changed (the changed file itself, or e.g. worterbuch/src/worterbuch.rs for the server core), driving the real code in-process the way the existing unit tests of that crate do (a `Worterbuch` core built from a `Config`, the handler or function you changed called directly, an mpsc channel where the code sends messages, a temp directory under std::env::temp_dir() with a unique name for persistence). Run it with `CARGO_TARGET_DIR={D}/target cargo test --offline {pkg} seeded_demo`. Verify both directions yourself (with the defect: fails; `git apply -R` the defect: passes; run it several times to make sure it is not flaky), then restore your change.
4. Produce these files:
   - {D}/patch.diff : a diff (as produced by `git diff`) containing ONLY the defect; must apply with `git apply` to a clean checkout.
   - {D}/demo.diff  : a diff that adds only the demonstration test; must apply with and without the defect.
   - {D}/meta.json  : {{"property":"{pid}","summary":"<one paragraph: what was changed and why it breaks the property>","needs":"<what specific situation is needed>","demo":"<exact command>","demo_pkg":"{pkg}","ran":["<commands and outcomes>"]}}
   Leave the worktree with the defect applied (demo not applied).

Report back briefly: what you changed, what is needed to trigger it, and the outcome of the test-suite run and of the demo in both directions. Do not spend effort on anything else.''')
