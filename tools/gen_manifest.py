#!/usr/bin/env python3
"""Generates /verif/MANIFEST.json from the table below (single source of truth for what is claimed)."""
import json, subprocess

def repo_commits(prefix):
    out = subprocess.run(["git","-C","/repo","log","--format=%h %s"],capture_output=True,text=True).stdout.splitlines()
    return [l.split()[0] for l in out if l.split(" ",1)[1].startswith(prefix)]

CHECKS = {
 "C01": dict(cat="model_checking", engine="wbmc-core/graph", ref="DESIGN.md §3 C01",
   text="Explicit-state search on the real core: every history of set/cset/delete/pdelete/import requests over a small key/pattern alphabet up to the completed depth (de-duplicated by a complete snapshot of the core), each step compared with a flat-map reference (answer, stored tree, entry count) and followed by a full read-back (get, cget, pget, ls, pls, len); a refused request must leave the snapshot unchanged.",
   note="Trusts the reference model (model.rs) and the snapshot hook; keys/values/patterns outside the alphabet are not explored; request atomicity is structural (single owner task).",
   technique="explicit-state model checking of the real core (BFS over request histories, snapshot de-duplication, reference-model oracle)"),
 "C05": dict(cat="model_checking", engine="wbmc-core/graph", ref="DESIGN.md §3 C05",
   text="Explicit-state search on the real core over mutators plus ls subscriptions on existing, not-yet-existing and root parents taken at every position; after every step ls/pls of every prefix must equal the reference and the last list every live ls subscriber received must equal the current child list.",
   note="Trusts the reference model and the snapshot hook; duplicate notifications of an unchanged list are allowed (the statement only constrains the last one).",
   technique="explicit-state model checking of the real core (BFS over request histories, snapshot de-duplication, reference-model oracle)"),

 "C02": dict(cat="model_checking", engine="wbmc-core/graph", ref="DESIGN.md §3 C02",
   text="Every interleaving (request granularity) of 2-3 clients running cget-then-cset cycles on shared keys on the real core, with a plain writer, a deleter, a rogue client sending stale/future/u64-boundary versions, value-preserving csets, and refused/accepted csets on keys below and above the CAS key; per step: cset succeeds iff the carried version equals the current one and raises it by one, plain set never replaces a CAS value, versions observed by a client never go backwards while the key exists, the stored value is the last acknowledged update.",
   note="Atomicity of one request is structural (the core is owned by one task that processes one channel message to completion) and is assumed, not explored at memory level; at u64::MAX the version cannot be raised and the request must be refused.",
   technique="explicit-state model checking of the real core (all interleavings of client programs at request granularity, de-duplicated)"),
 "C03": dict(cat="model_checking", engine="wbmc-core/graph", ref="DESIGN.md §3 C03",
   text="Explicit-state search on the real core over mutators, publish/spub and subscribe/psubscribe (unique x live-only)/unsubscribe/disconnect at every position with up to 3 concurrent subscriptions of 2 clients; after every request all receivers are drained and compared with the reference's expected stream (snapshot, then one event per accepted matching change in order, unique suppression, nothing after unsubscribe/disconnect, channel closed).",
   note="Order of events across requests strict, inside one multi-key request as a multiset; delivery over a socket (forwarding tasks) is covered under C13; the socket-level settle-point enumeration of the design is not built.",
   technique="explicit-state model checking of the real core (BFS over request histories, snapshot de-duplication, reference-model oracle)"),
 "C04": dict(cat="exploration", engine="wbmc-core/c04", ref="DESIGN.md §3 C04",
   text="Exhaustive enumeration of every pattern over {a,ab,'',?,#} and every key over {a,ab,''} (one literal a string prefix of the other) up to 4 (quick) / 5 (thorough) segments: for each pair (on a store holding only that key) and for each pattern on a store holding every key at once (values at inner nodes, siblings, empty segments), pget, live notification and pdelete on the real core must agree with each other and with the documented relation; patterns with a non-final # must be rejected by all three entry points also on an empty store.",
   note="One key per store; segments other than a/b/'' behave like a/b (the matchers compare segments for equality only).",
   technique="exhaustive enumeration of a bounded input space on the real core (all pattern/key pairs up to depth 4-5)"),
 "C06": dict(cat="model_checking", engine="wbmc-core/graph", ref="DESIGN.md §3 C06",
   text="Explicit-state search on the real core over lock/acquireLock/releaseLock/disconnect/connect by three clients over two nested keys; after every request answers, exactly-once confirmation/cancellation of every acquire receiver, holder and FIFO waiting order (from the snapshot) are compared with the reference.",
   note="A waiting client's own releaseLock withdraws its pending acquires (left open by the statement, follows the implementation).",
   technique="explicit-state model checking of the real core (BFS over request histories, snapshot de-duplication, reference-model oracle)"),
 "C07": dict(cat="model_checking", engine="wbmc-core/graph", ref="DESIGN.md §3 C07",
   text="Explicit-state search on the real core over connect, (re-)registration of grave goods / last wills (overlapping patterns, CAS-protected and protected $SYS targets), user writes, subscriptions, ls subscriptions, publish streams, locks and disconnect of 2 (quick) / 3 (thorough) clients in every order; session end must bury, then publish the will, remove the client's $SYS entries, subscriptions, streams and locks, each once, with events as for ordinary deletes/sets, and touch nothing else (full read-back + subscription/lock/stream tables from the snapshot). A second scenario enumerates lock/acquireLock/releaseLock over two keys by two clients with connect/disconnect, so that the ending session's lock bookkeeping holds stale, duplicate and queued entries before the locks it really holds.",
   note="The events of one session end towards one subscriber are compared as two unordered batches (clean-up + burying, then the will); 'subscriptions' includes ls subscriptions.",
   technique="explicit-state model checking of the real core (BFS over request histories, snapshot de-duplication, reference-model oracle)"),
 "C08": dict(cat="model_checking", engine="wbmc-core/graph", ref="DESIGN.md §3 C08",
   text="Explicit-state search on the real core: every request kind of an ordinary client (set, cset, delete, pdelete, publish, spubInit/spub, lock, grave goods / last will + disconnect) crossed with every key/pattern shape that can reach $SYS, with sentinels planted by the server's own client and watched by internal subscribers; no sentinel may change and no internal subscriber may see an event the reference does not attribute to the server.",
   note="For wildcard-first patterns refusing, skipping $SYS, or skipping all but the client's own three entries are all accepted as conforming.",
   technique="explicit-state model checking of the real core (BFS over request histories, snapshot de-duplication, reference-model oracle)"),
 "C13": dict(cat="model_checking", engine="wbmc-core/graph", ref="DESIGN.md §3 C13",
   text="Explicit-state search over sequences of request lines of two concurrent sessions through the real protocol handler (Proto, v0 and v1) and the real core task: every request kind with valid and invalid arguments; per request exactly one terminal message with its transaction id and of the protocol's kind (or an Err whose code is one of the applicable reasons), subscription events carry the subscribe's id and follow its Ack, a failing request neither ends the session nor disturbs the other session; the core's tables must equal the reference after every line. Further scenarios: bursts of 2-3 lines through the real serve() loop over a socket pair (pipelined), and three sessions locking, queueing twice for and releasing one key in every order.",
   note="In-process sessions fed one line at a time (within one connection the real serve loop is sequential as well); polling order between forwarding tasks is tokio's FIFO and not enumerated; handshake messages are not requests.",
   technique="explicit-state model checking of the real protocol handler + core task (BFS over line sequences of two sessions, snapshot de-duplication, protocol-table reference)"),
 "C17": dict(cat="model_checking", engine="wbmc-core/tree", ref="DESIGN.md §3 C17",
   text="Stateless enumeration of all sequences (depth 2 quick / 3 thorough) of adversary lines - every request kind with valid, invalid and absurd arguments (10 kB and 64-level keys, u64::MAX ids/versions, negative numbers), malformed/undecodable lines, unknown variants - interleaved with witness requests and followed by a fixed witness script, plus 17 request kinds x 26 key shapes at the edges of the server's special cases (every length of the $SYS/clients/<id>/... guard for the own and another client, empty segments, wildcards in every position), singly (quick) and in pairs (thorough); the harness is built with debug assertions and overflow checks: the core task must stay alive, undecodable lines must end only the offending session, the witness must get exactly the reference's answers.",
   note="'All byte lines' beyond the alphabet would be fuzzing (another family); the alphabet and depth are stated in the evidence.",
   technique="stateless bounded-exhaustive exploration of the real protocol handler + core task (all line sequences up to depth 2-3, witness-script oracle)"),
 "C09": dict(cat="exploration", engine="wbmc-core/persist", ref="DESIGN.md §3 C09",
   text="Exhaustive enumeration of a bounded space of store contents (every single entry over 9 key shapes (incl. empty and unicode segments, a first segment that only starts with $SYS, $SYS as a later segment) x 10 JSON values incl. values that look like the file format's tags x plain/CAS at versions 1, 2, 2^53+1, u64::MAX; pairs and triples over a reduced value set) x 6 registration sets (incl. cleared, i.e. null, registrations next to real ones, and a last will naming one key twice) x the three on-disk layouts v3/v2/v1 x both toggle states: built through the real API, flushed with the real synchronous(), re-laid-out, loaded through the real load() fall-back chain, and compared key by key (value, kind, version, nothing under $SYS, registrations applied).",
   note="The reference takes the content at the flush from the instance itself and applies grave goods / last wills with the documented relation; v1 has no registration file.",
   technique="exhaustive enumeration of a bounded input space through the real flush and load code (round trip oracle)"),
 "C10": dict(cat="fault_enumeration", engine="wbmc-core/persist + crashfs", ref="DESIGN.md §3 C10",
   text="Exhaustive crash-point enumeration under the process-crash model: a child process runs a history of 3 (quick) / 4 (thorough) flushes (synchronous flush; two ticks of one run of the periodic task between which only the registrations change; synchronous flush) under an LD_PRELOAD shim that kills it immediately before each mutating file-system call (plus torn variants of every *.tmp write); from every distinct directory state left behind two second runs (load, mutate, flush, mutate, flush: once into new states, once back to the state the slot written next held before) are checked on completion and killed at each of their calls again; after every crash the real load() must recover exactly the last completed or the in-progress flush with that same flush's registrations applied.",
   note="Completed file operations persist in order, only *.tmp files can be torn (the property's crash model); the flushes alternate between the synchronous variant (shutdown / follower path) and a tick of the real periodic flush task; crash points at the libc boundary.",
   technique="exhaustive fault (crash-point) enumeration of the real flush/load code with an LD_PRELOAD process-kill injector, two crash levels"),
 "C14": dict(cat="exploration", engine="wbmc-core/c14", ref="DESIGN.md §3 C14",
   text="Exhaustive enumeration of every variant of ClientMessage (23), ServerMessage (8) and the cluster sync messages (LeaderSyncMessage, ClientWriteCommand, StateSync built by the real export) over small field alphabets (u64-boundary ids and versions, keys with empty/unicode/newline/quote/U+2028, JSON terms of depth <= 2 whose object keys collide with envelope field names, optional fields present/absent): the encoding must be one line, deterministic, accepted by write_line_and_flush, and decode (from_str and the real receive_msg line reader) to an equal message. The line writer is additionally run over transports that accept only 1 / 7 / 100 / 1023 bytes per call and must leave the same bytes on the wire; some values are longer than its 1024-byte chunks.",
   note="Equality is structural (PartialEq of the message types; StoreNode equality for StateSync).",
   technique="exhaustive enumeration of a bounded input space through the real codec (round trip oracle)"),
 "C16": dict(cat="model_checking", engine="wbmc-core/tree", ref="DESIGN.md §3 C16",
   text="Stateless enumeration of all sequences (depth 6 quick / 8 thorough) of set/delete events on two keys and clock advances of I/2 and I handed to the real PStateAggregator on a paused tokio clock: concatenated batches must contain, per key, exactly the handed-in events in order, no key twice in a batch, and every event must be delivered within the interval; plus all sequences of writes/deletes/advances on a live in-process session comparing an aggregated and a plain psubscribe on the same pattern (snapshot first and unbatched, then equal per-key streams).",
   note="Timer-vs-event orders are produced as different step sequences (one stimulus outstanding at a time); delays observed with 10 ms resolution; the connection can always take messages.",
   technique="stateless bounded-exhaustive exploration of the real aggregator on a paused clock (all event/timer sequences up to depth 6-8)"),
 "C11": dict(cat="model_checking", engine="wbmc-core/graph", ref="DESIGN.md §3 C11",
   text="Explicit-state search where every transition calls the real code with one pending event: the leader loop's request branch (forward, then apply), follower-connected branch (state export + channel registration), grave-goods/last-will forwarding branches (pumped in the loop's biased order), the follower's initial_sync, process_leader_message (through the real JSON encoding of the sync messages) and process_api_call; histories of client activity on the leader with a follower joining at every position (two followers in thorough) and writes offered to the follower; at every quiescent state the follower's user keys (values, kinds, versions) and its view of the registrations must equal the leader's, and direct writes must be refused with NotLeader without any effect. A second scenario (end-to-end) replays every history up to depth 3/4 on two real nodes started with spawn_worterbuch (leader mode with its TCP cluster sync port, follower mode connecting to it) and requires both nodes to end with exactly the content (values, kinds, versions) the component-level run of the same history gives: that binds the component-level harness to the real loops, sockets and framing.",
   note="The exhaustive part is component level (no sockets); the end-to-end scenario runs in real time on a multi-thread runtime, establishes quiescence by a marker write that travels the same ordered channel, and covers only short histories; the follower is a deterministic function of (initial sync, command sequence), so delivery timing is not a separate choice; known deviations are attributed by the keys a recorded cause (session end with registrations, import of CAS entries, pre-join registrations) can affect.",
   technique="explicit-state model checking over the real leader/follower step functions (one pending event per transition, snapshot de-duplication, differential oracle leader vs follower)"),
 "C12": dict(cat="model_checking", engine="wbmc-core/graph", ref="DESIGN.md §3 C12",
   text="Explicit-state search over leader histories x follower join point x persistence ticks x leader-loss point: the follower node's core comes from the real persistence::restore under the configuration the orchestrator's command line produces (Config::new(Some(Args{--follower..})) with only the data directory in the environment), it flushes where run_in_follower_mode flushes, is stopped by the shutdown sequence - or lost without it, in which case what its latest flush wrote counts - and restored in --leader mode from the same directory; the promoted core must hold every user key the follower had received, minus the grave goods and plus the last wills of all clients connected to the old leader (including those registered before the join).",
   note="Component level; JSON persistence; election and process management are C19's subject.",
   technique="explicit-state model checking over the real leader/follower/restore code (fail-over at every quiescent point of every bounded history)"),
 "C15": dict(cat="model_checking", engine="wbmc-core/graph", ref="DESIGN.md §3 C15",
   text="Part 1: exhaustive over all (grant, requested pattern) pairs over {a,ab,?,#} (one literal a string prefix of the other) up to depth 4/5: where auth::pattern_matches claims containment, every key the real server returns for the request must be covered by the grant under the documented relation. Part 2: explicit-state search over request sequences (all request kinds x keys/patterns) of a session on a server that requires authorization, for 10 tokens (none, five grant sets, expired, forged, unsupported algorithm, garbage; real HS256 tokens): nothing is served before a valid token; a served request only returns/changes/removes keys (answer, store difference, unrestricted internal observer) covered by a grant of its privilege; a refused request has no effect.",
   note="Only soundness (served => covered) is asserted; token expiry uses the wall clock with expiry times decades away.",
   technique="exhaustive enumeration of pattern pairs + explicit-state model checking of sessions on the real protocol handler with authorization on"),
 "C18": dict(cat="fault_enumeration", engine="wbmc-core/tree", ref="DESIGN.md §3 C18",
   text="Stateless enumeration of all sequences (depth 4 quick / 5 thorough) over set, cset, delete, single- and multi-key pdelete, connect, grave-goods/last-will registration, disconnect and 'settle' steps on a core built by the real persistence::restore in ReDB mode: the background writer only runs at settle steps, so every batching of the queued changes is produced; every sequence ends with a crash (the whole runtime is dropped) or with a clean stop (flush), then a fresh runtime restores from the database file; the recovered content (values, kinds, versions, registrations applied) must be the reference state after some prefix of the single-key change sequence that contains everything committed before the last settle (all of it after a clean stop).",
   note="redb's transaction atomicity/durability is trusted (process-crash model at transaction granularity); syscall-level crash points inside a commit are not enumerated.",
   technique="bounded-exhaustive exploration of writer batchings and stop points on the real ReDB persistence path (prefix-consistency oracle)"),
 "C20": dict(cat="model_checking", engine="wbmc-core/sched", ref="DESIGN.md §3 C20",
   text="Schedule exploration of the real client library over its unix transport against the real serve loop and a core task that processes a request only when the explorer grants a permit: every interleaving of 'task i submits its next call' and 'server processes the next queued request' for 2-3 tasks on cloned handles with 2-3 calls each on colliding keys (explored to the end); each call must resolve with the reference's answer to that very call (typed results), never earlier; racing update() calls must not lose an acknowledged increment; the send buffer is driven on a paused clock through all sequences of set_later/publish_later/advance (each key's latest buffered value is sent once per kind, nothing else is sent), once with a server that answers at once and once with a gated server that only moves at explicit steps (values handed in while an earlier set/publish of the same key is unanswered); all unsubscribe variants (value, pattern, ls x awaited, fire-and-forget) must remove the server-side subscription and stop the events. Typed results: for 11 value shapes (incl. null, containers holding null, empty containers) every typed and generic accessor (get, cget, pget, delete, pdelete) must return what the server holds.",
   note="One stimulus outstanding at a time (paused current-thread runtime, fixed number of yields, never parking); a real unix socket lives inside the runtime, guarded by the explorer's determinism self-check; the in-process 'local' transport is not covered.",
   technique="deviation-free exhaustive schedule exploration of the real client library against the real server session (gated core task), explicit-state de-duplication"),
 "C19": dict(cat="model_checking", engine="wbmc-orch/tree", ref="DESIGN.md §3 C19",
   text="Stateless enumeration, for every cluster size 1..5 (quick) / 1..7 (thorough) and every configured quorum (none, 1..n), of all sequences of scripted peer behaviours up to depth 3-5 (vote from a new / duplicate / unknown node, competing vote request of higher / equal / lower priority, from a stranger, heartbeat request of a member / stranger, heartbeat response, election timeout, silence) plus the timeout-then-votes paths up to quorum+2 and the election-round paths (timeout, votes, expiry of the round, timeout, votes ...) up to depth 7-9, against the real elect_leader on a paused clock with real loopback UDP sockets: 'leader' only with votes of at least quorum-1 distinct configured peers since the node's latest vote-request broadcast; 'follower' only of a node that announced itself, and follow() starts nothing for a node that is not configured; quorum_sanity_check exhaustively for 1..7 nodes x quorum none/0..8.",
   note="Safety only; the randomized election timeout is crossed by advancing until the vote requests are observed; lead() and the server process are not started (run_main turns the Leader outcome into lead() unconditionally).",
   technique="stateless bounded-exhaustive exploration of the real election code against scripted peers (paused clock, loopback UDP), all configurations up to 5-7 nodes"),
}

NOT_YET = {}

def main():
    props=[json.loads(l) for l in open('/verif/properties.jsonl')]
    checks=[]
    for p in props:
        pid=p['id']
        if pid in CHECKS:
            c=CHECKS[pid]
            checks.append({
              "property_id": pid,
              "quick_cmd": f"./check {pid} quick",
              "thorough_cmd": f"./check {pid} thorough",
              "evidence_file": f"/verif/evidence/{pid}.json",
              "replay_cmd_template": f"./check {pid} --replay {{path}}",
              "engine": c['engine'],
              "level_claimed": {"category": c['cat'], "text": c['text'], "design_ref": c['ref']},
              "level_note": c['note'],
              "technique": c['technique'],
            })
    na=[{"property_id":p['id'],"reason":NOT_YET.get(p['id'],"no check registered yet: the machinery for this property is still being built in this session (see DESIGN.md §3 for the planned bounded exhaustive exploration)")} for p in props if p['id'] not in CHECKS]
    m={
      "version":1,
      "setup_cmd":"./setup.sh",
      "hooks":{
        "guard":"cargo feature `verif` on crate worterbuch (and on worterbuch-cluster-orchestrator)",
        "enable":"the harness workspace /verif/wbmc depends on /repo/worterbuch by path with default-features=false, features=[\"redb\",\"verif\"]; ./check rebuilds it with `cargo build --offline --profile verif` before every run",
        "baseline_off_cmd":"/verif/tools/baseline.sh /repo",
        "source_commits": repo_commits("verif hooks"),
        "add_only": True,
      },
      "engines":[
        {"name":"wbmc-core","path":"/verif/wbmc/wbmc-core","serves_properties":sorted(k for k in CHECKS if k!="C19"),"kind_free_text":"explicit-state / stateless exploration of the real worterbuch code (library /verif/wbmc/mc: graph engine with snapshot de-duplication, tree engine, schedule exploration with a gated core task) against a boring reference model"},
        {"name":"wbmc-orch","path":"/verif/wbmc/wbmc-orch","serves_properties":["C19"],"kind_free_text":"stateless exploration of the real orchestrator election against scripted UDP peers on a paused clock"},
        {"name":"crashfs","path":"/verif/crashfs/crashfs.c","serves_properties":["C10"],"kind_free_text":"LD_PRELOAD process-kill fault injector at the libc boundary (crash before the n-th mutating file-system call, torn *.tmp writes)"},
      ],
      "checks":checks,
      "notes":"Known findings: /verif/known_findings.json (signature-based; never written at run time). Fix commits in /repo start with 'fix:'.",
      "not_applicable":na,
    }
    json.dump(m,open('/verif/MANIFEST.json','w'),indent=1,ensure_ascii=False)
    print("MANIFEST: %d checks, %d not claimed"%(len(checks),len(na)))
main()
