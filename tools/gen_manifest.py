#!/usr/bin/env python3
"""Generates /verif/MANIFEST.json from the table below (single source of truth for what is claimed)."""
import json, subprocess

def repo_commits(prefix):
    out = subprocess.run(["git","-C","/repo","log","--format=%h %s"],capture_output=True,text=True).stdout.splitlines()
    return [l.split()[0] for l in out if l.split(" ",1)[1].startswith(prefix)]

CHECKS = {
 "C01": dict(cat="model_checking", engine="wbmc-core/graph", ref="DESIGN.md §3 C01",
   text="Explicit-state search on the real core: every history of set/cset/delete/pdelete/import requests over a small key/pattern alphabet up to the completed depth (de-duplicated by a complete snapshot of the core), each step compared with a flat-map reference (answer, stored tree, entry count) and followed by a full read-back (get, cget, pget, ls, pls, len); a refused request must leave the snapshot unchanged.",
   note="Trusts the reference model (model.rs) and the snapshot hook; keys/values/patterns outside the alphabet are not explored; request atomicity is structural (single owner task).",
   technique="explicit-state model checking of the real core (BFS over request histories, snapshot de-duplication, reference-model oracle)"),
 "C05": dict(cat="model_checking", engine="wbmc-core/graph", ref="DESIGN.md §3 C05",
   text="Explicit-state search on the real core over mutators plus ls subscriptions on existing, not-yet-existing and root parents taken at every position; after every step ls/pls of every prefix must equal the reference and the last list every live ls subscriber received must equal the current child list.",
   note="Trusts the reference model and the snapshot hook; duplicate notifications of an unchanged list are allowed (the statement only constrains the last one).",
   technique="explicit-state model checking of the real core (BFS over request histories, snapshot de-duplication, reference-model oracle)"),
}

NOT_YET = {}

def main():
    props=[json.loads(l) for l in open('/verif/properties.jsonl')]
    checks=[]
    for p in props:
        pid=p['id']
        if pid in CHECKS:
            c=CHECKS[pid]
            checks.append({
              "property_id": pid,
              "quick_cmd": f"./check {pid} quick",
              "thorough_cmd": f"./check {pid} thorough",
              "evidence_file": f"/verif/evidence/{pid}.json",
              "replay_cmd_template": f"./check {pid} --replay {{path}}",
              "engine": c['engine'],
              "level_claimed": {"category": c['cat'], "text": c['text'], "design_ref": c['ref']},
              "level_note": c['note'],
              "technique": c['technique'],
            })
    na=[{"property_id":p['id'],"reason":NOT_YET.get(p['id'],"no check registered yet: the machinery for this property is still being built in this session (see DESIGN.md §3 for the planned bounded exhaustive exploration)")} for p in props if p['id'] not in CHECKS]
    m={
      "version":1,
      "setup_cmd":"./setup.sh",
      "hooks":{
        "guard":"cargo feature `verif` on crate worterbuch (and on worterbuch-cluster-orchestrator)",
        "enable":"the harness workspace /verif/wbmc depends on /repo/worterbuch by path with default-features=false, features=[\"redb\",\"verif\"]; ./check rebuilds it with `cargo build --offline --profile verif` before every run",
        "baseline_off_cmd":"/verif/tools/baseline.sh /repo",
        "source_commits": repo_commits("verif hooks"),
        "add_only": True,
      },
      "engines":[
        {"name":"wbmc-core","path":"/verif/wbmc/wbmc-core","serves_properties":sorted(k for k in CHECKS if k!="C19"),"kind_free_text":"explicit-state / stateless exploration of the real worterbuch code (library /verif/wbmc/mc: graph engine with snapshot de-duplication, tree engine, deviation-bounded schedule engine) against a boring reference model"},
      ],
      "checks":checks,
      "notes":"Known findings: /verif/known_findings.json (signature-based; never written at run time). Fix commits in /repo start with 'fix:'.",
      "not_applicable":na,
    }
    json.dump(m,open('/verif/MANIFEST.json','w'),indent=1,ensure_ascii=False)
    print("MANIFEST: %d checks, %d not claimed"%(len(checks),len(na)))
main()
