#!/bin/bash
# usage: tools/regress_seeds.sh [out-file]   re-applies every archived seeded change to /repo (one at a time, restored
# afterwards) and runs the quick tier of every check recorded as catching it; prints one line per (change, check).
# env: SEEDS="name1 name2 ..." restricts the run to those directories; FIRST_ONLY=1 runs only the first recorded check
OUT=${1:-/tmp/regress_seeds.log}; : > $OUT
for d in /verif/seeded/C*/; do
  [ -n "${SEEDS:-}" ] && ! echo " $SEEDS " | grep -q " $(basename $d) " && continue
  name=$(basename $d)
  ids=$(python3 - "$d" <<'PY'
import json,sys
m=json.load(open(sys.argv[1]+'/meta.json'))
c=m.get('checks',{})
print(' '.join(c['caught_by']) if 'caught_by' in c else ' '.join(k for k,v in c.items() if isinstance(v,str) and v.startswith('caught')))
PY
)
  [ -z "$ids" ] && continue
  [ -n "${FIRST_ONLY:-}" ] && ids=$(echo $ids | cut -d" " -f1)
  /verif/tools/try_seed.sh $d/patch.diff $ids 2>&1 | sed "s|^|$name |" | cut -c1-220 >> $OUT
done
echo "missed: $(grep -c ' rc=0' $OUT)  caught: $(grep -c ' rc=1' $OUT)  other: $(grep -vc ' rc=[01]' $OUT)" >> $OUT
