#!/usr/bin/env python3
"""usage: keep_seed.py <scratch id> <seeded dir name> '<caught-by json>'  — copies patch, demo, meta into /verif/seeded/<name>/"""
import json,sys,shutil,os
sid,name,caught=sys.argv[1],sys.argv[2],json.loads(sys.argv[3])
src=f"/tmp/seed-{sid}"; dst=f"/verif/seeded/{name}"
os.makedirs(dst,exist_ok=True)
shutil.copy(f"{src}/patch.diff",f"{dst}/patch.diff")
for f in ("demo.diff","demo.sh"):
    if os.path.exists(f"{src}/{f}"): shutil.copy(f"{src}/{f}",f"{dst}/{f}")
meta=json.load(open(f"{src}/meta.json"))
meta["verified_here"]=[
  "tools/verify_seed.sh in the scratch worktree: unit tests of worterbuch, worterbuch-common, worterbuch-client pass with the change (35/0/35); the demo fails with the change and passes without it",
  "tools/try_seed.sh: git -C /repo apply patch.diff; ./check <ids> quick; git -C /repo checkout -- .",
]
meta["checks"]=caught
json.dump(meta,open(f"{dst}/meta.json","w"),indent=1,ensure_ascii=False)
print("kept",dst)
