#!/bin/bash
# usage: tools/thorough_sweep.sh <out-dir> <ids...>
# Runs the thorough tier of the given checks from a private copy of the harness binaries (built once
# from /repo's current tree under the same lock tools/try_seed.sh takes), with evidence and replays
# written under <out-dir>, so that nothing in /verif/evidence is touched. For finding false alarms at
# deeper bounds while other work goes on; results are not evidence.
OUT=$1; shift
mkdir -p $OUT/bin $OUT/ev $OUT/rp
flock /tmp/repo.lock bash -c 'cd /verif/wbmc && cargo build --offline --profile verif -p wbmc-core -p wbmc-orch >/dev/null 2>&1' || { echo "build failed"; exit 2; }
cp /verif/target/verif/wbmc-core /verif/target/verif/wbmc-orch $OUT/bin/
for c in "$@"; do
  BIN=wbmc-core; [ $c = C19 ] && BIN=wbmc-orch
  s=$(date +%s)
  env -i PATH="$PATH" HOME=/root VERIF_DIR=/verif VERIF_SEED=0 VERIF_EVIDENCE_DIR=$OUT/ev VERIF_REPLAY_DIR=$OUT/rp $OUT/bin/$BIN $c thorough > $OUT/$c.log 2>&1
  echo "$c rc=$? $(( $(date +%s)-s ))s" >> $OUT/summary.log
done
echo done >> $OUT/summary.log
