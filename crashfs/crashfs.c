// crashfs: LD_PRELOAD fault injector for the process-crash model.
//
// Interposes the mutating libc calls that Rust's std::fs / tokio::fs / redb use. Calls that touch
// paths (or descriptors opened on paths) below $CRASHFS_DIR are counted; the process _exit(137)s
// immediately BEFORE the CRASHFS_AT-th such call, i.e. all earlier calls have completed (and, under
// the process-crash model, persist in order) and the n-th never happens.
//   CRASHFS_AT=0        never crash (dry run)
//   CRASHFS_LOG=<file>  append one line per counted call: "<n> <op> <path>"
//   CRASHFS_TORN=<k>    with CRASHFS_AT=n: if the n-th call is a write() to a *.tmp file, perform
//                       it for the first len*k/4 bytes (k in 0..3), then exit (torn tmp file)
#define _GNU_SOURCE
#include <dlfcn.h>
#include <fcntl.h>
#include <stdarg.h>
#include <stdio.h>
#include <stdlib.h>
#include <string.h>
#include <unistd.h>
#include <pthread.h>
#include <sys/types.h>
#include <sys/uio.h>

#define MAXFD 4096
static char *fd_path[MAXFD];
static pthread_mutex_t mu = PTHREAD_MUTEX_INITIALIZER;
static long counter = 0;
static const char *root = NULL;
static long crash_at = 0;
static long torn = -1;
static const char *logfile = NULL;
static int inited = 0;

static void init(void) {
  if (inited) return;
  inited = 1;
  root = getenv("CRASHFS_DIR");
  const char *a = getenv("CRASHFS_AT");
  crash_at = a ? atol(a) : 0;
  const char *t = getenv("CRASHFS_TORN");
  torn = t ? atol(t) : -1;
  logfile = getenv("CRASHFS_LOG");
}

static int under_root(const char *path) {
  init();
  if (!root || !path) return 0;
  size_t n = strlen(root);
  return strncmp(path, root, n) == 0 && (path[n] == '/' || path[n] == 0);
}

static void logline(long n, const char *op, const char *path) {
  if (!logfile) return;
  static int (*real_open)(const char *, int, ...) = NULL;
  static ssize_t (*real_write)(int, const void *, size_t) = NULL;
  if (!real_open) real_open = dlsym(RTLD_NEXT, "open");
  if (!real_write) real_write = dlsym(RTLD_NEXT, "write");
  int fd = real_open(logfile, O_WRONLY | O_CREAT | O_APPEND, 0644);
  if (fd < 0) return;
  char buf[1200];
  int len = snprintf(buf, sizeof buf, "%ld %s %s\n", n, op, path ? path : "?");
  real_write(fd, buf, len);
  close(fd);
}

// returns 1 if the caller must perform a torn write instead of the full one
static int point(const char *op, const char *path, int is_tmp_write) {
  pthread_mutex_lock(&mu);
  long n = ++counter;
  logline(n, op, path);
  if (crash_at > 0 && n == crash_at) {
    if (is_tmp_write && torn >= 0) {
      pthread_mutex_unlock(&mu);
      return 1;
    }
    _exit(137);
  }
  pthread_mutex_unlock(&mu);
  return 0;
}

static void remember(int fd, const char *path) {
  if (fd >= 0 && fd < MAXFD) {
    pthread_mutex_lock(&mu);
    free(fd_path[fd]);
    fd_path[fd] = strdup(path);
    pthread_mutex_unlock(&mu);
  }
}

static int do_open(const char *name, int (*real)(const char *, int, ...), const char *path, int flags, mode_t mode) {
  int tracked = under_root(path);
  if (tracked && (flags & (O_CREAT | O_TRUNC))) point(flags & O_TRUNC ? "open-trunc" : "open-creat", path, 0);
  int fd = real(path, flags, mode);
  if (tracked && (flags & (O_WRONLY | O_RDWR))) remember(fd, path);
  (void)name;
  return fd;
}

int open(const char *path, int flags, ...) {
  static int (*real)(const char *, int, ...) = NULL;
  if (!real) real = dlsym(RTLD_NEXT, "open");
  mode_t mode = 0;
  if (flags & (O_CREAT | O_TMPFILE)) { va_list ap; va_start(ap, flags); mode = va_arg(ap, mode_t); va_end(ap); }
  return do_open("open", real, path, flags, mode);
}

int open64(const char *path, int flags, ...) {
  static int (*real)(const char *, int, ...) = NULL;
  if (!real) real = dlsym(RTLD_NEXT, "open64");
  mode_t mode = 0;
  if (flags & (O_CREAT | O_TMPFILE)) { va_list ap; va_start(ap, flags); mode = va_arg(ap, mode_t); va_end(ap); }
  return do_open("open64", real, path, flags, mode);
}

int openat(int dirfd, const char *path, int flags, ...) {
  static int (*real)(int, const char *, int, ...) = NULL;
  if (!real) real = dlsym(RTLD_NEXT, "openat");
  mode_t mode = 0;
  if (flags & (O_CREAT | O_TMPFILE)) { va_list ap; va_start(ap, flags); mode = va_arg(ap, mode_t); va_end(ap); }
  int tracked = under_root(path);
  if (tracked && (flags & (O_CREAT | O_TRUNC))) point(flags & O_TRUNC ? "open-trunc" : "open-creat", path, 0);
  int fd = real(dirfd, path, flags, mode);
  if (tracked && (flags & (O_WRONLY | O_RDWR))) remember(fd, path);
  return fd;
}

int openat64(int dirfd, const char *path, int flags, ...) {
  static int (*real)(int, const char *, int, ...) = NULL;
  if (!real) real = dlsym(RTLD_NEXT, "openat64");
  mode_t mode = 0;
  if (flags & (O_CREAT | O_TMPFILE)) { va_list ap; va_start(ap, flags); mode = va_arg(ap, mode_t); va_end(ap); }
  int tracked = under_root(path);
  if (tracked && (flags & (O_CREAT | O_TRUNC))) point(flags & O_TRUNC ? "open-trunc" : "open-creat", path, 0);
  int fd = real(dirfd, path, flags, mode);
  if (tracked && (flags & (O_WRONLY | O_RDWR))) remember(fd, path);
  return fd;
}

int close(int fd) {
  static int (*real)(int) = NULL;
  if (!real) real = dlsym(RTLD_NEXT, "close");
  if (fd >= 0 && fd < MAXFD && fd_path[fd]) {
    pthread_mutex_lock(&mu);
    free(fd_path[fd]);
    fd_path[fd] = NULL;
    pthread_mutex_unlock(&mu);
  }
  return real(fd);
}

static const char *path_of(int fd) {
  if (fd >= 0 && fd < MAXFD) return fd_path[fd];
  return NULL;
}

static int ends_with_tmp(const char *p) {
  size_t n = p ? strlen(p) : 0;
  return n >= 4 && strcmp(p + n - 4, ".tmp") == 0;
}

ssize_t write(int fd, const void *buf, size_t count) {
  static ssize_t (*real)(int, const void *, size_t) = NULL;
  if (!real) real = dlsym(RTLD_NEXT, "write");
  const char *p = path_of(fd);
  if (p) {
    if (point("write", p, ends_with_tmp(p))) {
      size_t part = count * (size_t)torn / 4;
      if (part > 0) real(fd, buf, part);
      _exit(137);
    }
  }
  return real(fd, buf, count);
}

ssize_t pwrite64(int fd, const void *buf, size_t count, off64_t off) {
  static ssize_t (*real)(int, const void *, size_t, off64_t) = NULL;
  if (!real) real = dlsym(RTLD_NEXT, "pwrite64");
  const char *p = path_of(fd);
  if (p) point("pwrite", p, 0);
  return real(fd, buf, count, off);
}

ssize_t pwrite(int fd, const void *buf, size_t count, off_t off) {
  static ssize_t (*real)(int, const void *, size_t, off_t) = NULL;
  if (!real) real = dlsym(RTLD_NEXT, "pwrite");
  const char *p = path_of(fd);
  if (p) point("pwrite", p, 0);
  return real(fd, buf, count, off);
}

ssize_t writev(int fd, const struct iovec *iov, int iovcnt) {
  static ssize_t (*real)(int, const struct iovec *, int) = NULL;
  if (!real) real = dlsym(RTLD_NEXT, "writev");
  const char *p = path_of(fd);
  if (p) point("writev", p, 0);
  return real(fd, iov, iovcnt);
}

int rename(const char *from, const char *to) {
  static int (*real)(const char *, const char *) = NULL;
  if (!real) real = dlsym(RTLD_NEXT, "rename");
  if (under_root(to) || under_root(from)) point("rename", to, 0);
  return real(from, to);
}

int renameat(int fd1, const char *from, int fd2, const char *to) {
  static int (*real)(int, const char *, int, const char *) = NULL;
  if (!real) real = dlsym(RTLD_NEXT, "renameat");
  if (under_root(to) || under_root(from)) point("rename", to, 0);
  return real(fd1, from, fd2, to);
}

int unlink(const char *path) {
  static int (*real)(const char *) = NULL;
  if (!real) real = dlsym(RTLD_NEXT, "unlink");
  // removing a file that does not exist changes nothing: not a crash point
  if (under_root(path) && access(path, F_OK) == 0) point("unlink", path, 0);
  return real(path);
}

int unlinkat(int dirfd, const char *path, int flags) {
  static int (*real)(int, const char *, int) = NULL;
  if (!real) real = dlsym(RTLD_NEXT, "unlinkat");
  if (under_root(path) && access(path, F_OK) == 0) point("unlink", path, 0);
  return real(dirfd, path, flags);
}

int ftruncate(int fd, off_t len) {
  static int (*real)(int, off_t) = NULL;
  if (!real) real = dlsym(RTLD_NEXT, "ftruncate");
  const char *p = path_of(fd);
  if (p) point("ftruncate", p, 0);
  return real(fd, len);
}

int ftruncate64(int fd, off64_t len) {
  static int (*real)(int, off64_t) = NULL;
  if (!real) real = dlsym(RTLD_NEXT, "ftruncate64");
  const char *p = path_of(fd);
  if (p) point("ftruncate", p, 0);
  return real(fd, len);
}

int mkdir(const char *path, mode_t mode) {
  static int (*real)(const char *, mode_t) = NULL;
  if (!real) real = dlsym(RTLD_NEXT, "mkdir");
  if (under_root(path) && access(path, F_OK) != 0) point("mkdir", path, 0);
  return real(path, mode);
}
