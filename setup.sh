#!/bin/bash
# MANIFEST.setup_cmd: build the framework from files on disk only (offline).
set -e
cd "$(dirname "$0")"
export CARGO_NET_OFFLINE=true
mkdir -p target evidence replays
(cd wbmc && cargo build --offline --profile verif --workspace)
if [ -f crashfs/crashfs.c ]; then
  gcc -O2 -shared -fPIC -o target/crashfs.so crashfs/crashfs.c -ldl
fi
echo "setup ok"
