use serde_json::{Map, Value, json};
use std::time::Instant;

/// Evidence file builder. Every number put in here is measured by the run that writes it.
pub struct Evidence {
    pub property: String,
    pub tier: String,
    pub level: String,
    pub coverage: Map<String, Value>,
    pub assumptions: Vec<String>,
    pub violations: i64,
    started: Instant,
}

impl Evidence {
    pub fn new(property: &str, tier: &str, level: &str) -> Evidence {
        Evidence {
            property: property.to_owned(),
            tier: tier.to_owned(),
            level: level.to_owned(),
            coverage: Map::new(),
            assumptions: vec![],
            violations: 0,
            started: Instant::now(),
        }
    }

    pub fn set(&mut self, key: &str, v: Value) {
        self.coverage.insert(key.to_owned(), v);
    }

    pub fn add(&mut self, key: &str, n: u64) {
        let cur = self.coverage.get(key).and_then(|v| v.as_u64()).unwrap_or(0);
        self.coverage.insert(key.to_owned(), json!(cur + n));
    }

    pub fn get_u64(&self, key: &str) -> u64 {
        self.coverage.get(key).and_then(|v| v.as_u64()).unwrap_or(0)
    }

    pub fn push_sample(&mut self, v: Value) {
        let e = self
            .coverage
            .entry("samples".to_owned())
            .or_insert_with(|| json!([]));
        if let Some(a) = e.as_array_mut() {
            if a.len() < 12 {
                a.push(v);
            }
        }
    }

    pub fn assume(&mut self, s: &str) {
        if !self.assumptions.iter().any(|a| a == s) {
            self.assumptions.push(s.to_owned());
        }
    }

    pub fn write(&self) {
        let dir = std::env::var("VERIF_EVIDENCE_DIR").unwrap_or_else(|_| "/verif/evidence".into());
        std::fs::create_dir_all(&dir).ok();
        let path = format!("{dir}/{}.json", self.property);
        let doc = json!({
            "property_id": self.property,
            "tier": self.tier,
            "seed": crate::util::seed(),
            "level": self.level,
            "coverage": Value::Object(self.coverage.clone()),
            "assumptions": self.assumptions,
            "wall_s": (self.started.elapsed().as_secs_f64() * 1000.0).round() / 1000.0,
            "violations": self.violations,
        });
        let tmp = format!("{path}.tmp");
        if let Err(e) = std::fs::write(&tmp, serde_json::to_string_pretty(&doc).unwrap_or_default())
            .and_then(|_| std::fs::rename(&tmp, &path))
        {
            eprintln!("MACHINERY: cannot write evidence {path}: {e}");
            std::process::exit(2);
        }
    }
}
