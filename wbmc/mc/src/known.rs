use serde::Deserialize;
use std::collections::BTreeSet;

#[derive(Deserialize, Debug, Clone)]
pub struct Finding {
    pub property: String,
    pub signature: String,
    /// "open" findings are reported as KNOWN-FINDING; anything else is ignored.
    pub status: String,
    #[serde(default)]
    pub description: String,
}

#[derive(Deserialize, Debug, Clone, Default)]
pub struct KnownFile {
    #[serde(default)]
    pub findings: Vec<Finding>,
    #[serde(default)]
    pub fixed: Vec<String>,
}

/// The committed known-findings file; read once, never written.
#[derive(Debug, Clone, Default)]
pub struct Known {
    pub file: KnownFile,
}

impl Known {
    pub fn load() -> Known {
        let path = std::env::var("VERIF_KNOWN_FINDINGS")
            .unwrap_or_else(|_| "/verif/known_findings.json".to_owned());
        match std::fs::read_to_string(&path) {
            Ok(s) => match serde_json::from_str::<KnownFile>(&s) {
                Ok(file) => Known { file },
                Err(e) => {
                    eprintln!("MACHINERY: cannot parse {path}: {e}");
                    std::process::exit(2);
                }
            },
            Err(_) => Known::default(),
        }
    }

    pub fn is_open(&self, property: &str, signature: &str) -> bool {
        self.file
            .findings
            .iter()
            .any(|f| f.property == property && f.signature == signature && f.status == "open")
    }

    pub fn open_for(&self, property: &str) -> BTreeSet<String> {
        self.file
            .findings
            .iter()
            .filter(|f| f.property == property && f.status == "open")
            .map(|f| f.signature.clone())
            .collect()
    }

    pub fn describe(&self, property: &str, signature: &str) -> String {
        self.file
            .findings
            .iter()
            .find(|f| f.property == property && f.signature == signature)
            .map(|f| f.description.clone())
            .unwrap_or_default()
    }
}
