//! Small explicit-state / stateless exploration library used by all worterbuch checks.
//!
//! * `explore`  – layer-synchronous BFS over operation histories executed on the *real* code, with
//!   optional de-duplication by a state fingerprint (`graph` engine) or without (`tree` engine).
//! * `evidence` – evidence file writer (schema: /root/.vp/EVIDENCE.schema.json).
//! * `known`    – known_findings.json loader (never written at run time).
//! * `report`   – VIOLATION / KNOWN-FINDING lines, replay files, exit codes.

pub mod evidence;
pub mod explore;
pub mod known;
pub mod report;
pub mod util;

pub use evidence::Evidence;
pub use explore::{ExploreStats, Limits, Scenario, StepOut, Verdict, explore};
pub use known::Known;
pub use report::Report;
