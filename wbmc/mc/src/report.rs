use crate::{Evidence, Known, util::hash_str};
use serde_json::{Value, json};
use std::collections::BTreeMap;

/// Collects violations and known-finding witnesses of one check run, writes replay files and
/// produces the exit code.
pub struct Report {
    pub property: String,
    pub known: Known,
    pub violations: Vec<(String, Value)>,
    /// signature -> (count, first witness)
    pub known_hits: BTreeMap<String, (u64, String, Value)>,
    pub machinery_errors: Vec<String>,
}

impl Report {
    pub fn new(property: &str) -> Report {
        Report {
            property: property.to_owned(),
            known: Known::load(),
            violations: vec![],
            known_hits: BTreeMap::new(),
            machinery_errors: vec![],
        }
    }

    pub fn violation(&mut self, what: impl Into<String>, replay: Value) {
        if self.violations.len() < 50 {
            self.violations.push((what.into(), replay));
        }
    }

    /// Record a witness of a finding; if the signature is not listed as open it is a violation.
    pub fn known_or_violation(&mut self, signature: &str, what: impl Into<String>, replay: Value) {
        let what = what.into();
        if self.known.is_open(&self.property, signature) {
            let e = self
                .known_hits
                .entry(signature.to_owned())
                .or_insert_with(|| (0, what, replay));
            e.0 += 1;
        } else {
            self.violation(format!("[{signature}] {what}"), replay);
        }
    }

    pub fn machinery(&mut self, what: impl Into<String>) {
        self.machinery_errors.push(what.into());
    }

    fn replay_dir(&self) -> String {
        let base = std::env::var("VERIF_REPLAY_DIR").unwrap_or_else(|_| "/verif/replays".into());
        format!("{base}/{}", self.property)
    }

    fn write_replay(&self, kind: &str, what: &str, replay: &Value) -> String {
        let dir = self.replay_dir();
        std::fs::create_dir_all(&dir).ok();
        let body = json!({"property": self.property, "kind": kind, "what": what, "replay": replay});
        let text = serde_json::to_string_pretty(&body).unwrap_or_default();
        let path = format!("{dir}/{kind}-{:016x}.json", hash_str(&replay.to_string()));
        std::fs::write(&path, text).ok();
        path
    }

    /// Print result lines, fill in the evidence, write it, and return the exit code.
    pub fn finish(self, ev: &mut Evidence) -> i32 {
        // replay files of earlier runs of this check are stale
        if let Ok(rd) = std::fs::read_dir(self.replay_dir()) {
            for e in rd.flatten() {
                std::fs::remove_file(e.path()).ok();
            }
        }
        let mut known_summary = vec![];
        for (sig, (count, what, replay)) in &self.known_hits {
            let path = self.write_replay(&format!("known-{sig}"), what, replay);
            println!(
                "KNOWN-FINDING: property={} {} [{}] ({} witnesses this run, first: {})",
                self.property,
                self.known.describe(&self.property, sig),
                sig,
                count,
                path
            );
            known_summary.push(json!({"signature": sig, "witnesses": count, "first": what}));
        }
        ev.set("known_findings", json!(known_summary));
        ev.violations = self.violations.len() as i64;
        let mut code = 0;
        for (i, (what, replay)) in self.violations.iter().enumerate() {
            let path = self.write_replay("violation", what, replay);
            code = 1;
            if i < 8 {
                println!("VIOLATION property={} replay={}", self.property, path);
                let short: String = what.chars().take(600).collect();
                println!("  what: {short}");
            }
        }
        if self.violations.len() > 8 {
            println!(
                "  ... {} violations in total (replay files written for the first {})",
                self.violations.len(),
                self.violations.len().min(50)
            );
        }
        if !self.machinery_errors.is_empty() {
            for m in &self.machinery_errors {
                eprintln!("MACHINERY: {m}");
            }
            ev.set("machinery_errors", json!(self.machinery_errors));
            if code == 0 {
                code = 2;
            }
        }
        ev.write();
        if code == 0 {
            println!(
                "OK property={} tier={} (evidence written)",
                self.property, ev.tier
            );
        }
        code
    }
}
