use std::hash::{Hash, Hasher};

/// FNV-1a 64 bit: stable across processes (std's SipHash with fixed keys would do too; this is
/// explicit about not depending on any per-process randomness).
#[derive(Clone)]
pub struct Fnv(pub u64);

impl Default for Fnv {
    fn default() -> Self {
        Fnv(0xcbf29ce484222325)
    }
}

impl Hasher for Fnv {
    fn finish(&self) -> u64 {
        self.0
    }
    fn write(&mut self, bytes: &[u8]) {
        for b in bytes {
            self.0 ^= *b as u64;
            self.0 = self.0.wrapping_mul(0x100000001b3);
        }
    }
}

pub fn hash_str(s: &str) -> u64 {
    let mut h = Fnv::default();
    s.hash(&mut h);
    h.finish()
}

pub fn hash_of<T: Hash>(t: &T) -> u64 {
    let mut h = Fnv::default();
    t.hash(&mut h);
    h.finish()
}

pub fn threads() -> usize {
    if let Ok(v) = std::env::var("VERIF_THREADS") {
        if let Ok(n) = v.parse::<usize>() {
            return n.max(1);
        }
    }
    std::thread::available_parallelism()
        .map(|n| n.get())
        .unwrap_or(4)
}

pub fn seed() -> i64 {
    std::env::var("VERIF_SEED")
        .ok()
        .and_then(|s| s.parse().ok())
        .unwrap_or(0)
}

/// Resident set size of this process in MiB (Linux), 0 if unknown.
pub fn rss_mib() -> u64 {
    if let Ok(s) = std::fs::read_to_string("/proc/self/statm") {
        if let Some(p) = s.split_whitespace().nth(1) {
            if let Ok(pages) = p.parse::<u64>() {
                return pages * 4096 / (1024 * 1024);
            }
        }
    }
    0
}

/// Run `f` over `items` on all cores, preserving the order of results.
pub fn par_map<T: Sync, R: Send>(items: &[T], f: impl Fn(usize, &T) -> R + Sync) -> Vec<R> {
    use std::sync::atomic::{AtomicUsize, Ordering};
    let n = threads().min(items.len().max(1));
    let next = AtomicUsize::new(0);
    let mut out: Vec<Option<R>> = Vec::with_capacity(items.len());
    out.resize_with(items.len(), || None);
    let chunks: Vec<Vec<(usize, R)>> = std::thread::scope(|s| {
        let mut hs = vec![];
        for _ in 0..n {
            // generous stacks: some of the code under test keeps 64 KiB datagram buffers inside
            // its futures, which are moved around on the stack while they are constructed
            hs.push(std::thread::Builder::new().stack_size(256 << 20).spawn_scoped(s, || {
                let mut local = vec![];
                loop {
                    let i = next.fetch_add(1, Ordering::Relaxed);
                    if i >= items.len() {
                        break;
                    }
                    local.push((i, f(i, &items[i])));
                }
                local
            }).expect("spawn worker"));
        }
        hs.into_iter()
            .map(|h| match h.join() {
                Ok(v) => v,
                Err(e) => std::panic::resume_unwind(e),
            })
            .collect()
    });
    for c in chunks {
        for (i, r) in c {
            out[i] = Some(r);
        }
    }
    out.into_iter().map(|o| o.expect("all items processed")).collect()
}

thread_local! {
    static LAST_PANIC: std::cell::RefCell<Option<String>> = const { std::cell::RefCell::new(None) };
}

/// Install a panic hook that records the message per thread instead of printing it.
pub fn install_quiet_panic_hook() {
    std::panic::set_hook(Box::new(|info| {
        let msg = if let Some(s) = info.payload().downcast_ref::<&str>() {
            (*s).to_owned()
        } else if let Some(s) = info.payload().downcast_ref::<String>() {
            s.clone()
        } else {
            "<non-string panic>".to_owned()
        };
        let loc = info
            .location()
            .map(|l| format!("{}:{}", l.file(), l.line()))
            .unwrap_or_default();
        LAST_PANIC.with(|p| *p.borrow_mut() = Some(format!("{msg} @ {loc}")));
        if let Ok(mut g) = LAST_PANIC_ANYWHERE.lock() {
            *g = Some(format!("{msg} @ {loc}"));
        }
    }));
}

static LAST_PANIC_ANYWHERE: std::sync::Mutex<Option<String>> = std::sync::Mutex::new(None);

/// Last resort of a check's `main`: a panic that no scenario caught. A harness error (message starts
/// with MACHINERY) is exit 2; anything else is a panic of the code under test and therefore a
/// violation (exit 1 with the VIOLATION line and a replay file that holds the message).
pub fn guard_main(property: &str, f: impl FnOnce() -> i32) -> i32 {
    match std::panic::catch_unwind(std::panic::AssertUnwindSafe(f)) {
        Ok(code) => code,
        Err(_) => {
            let msg = LAST_PANIC_ANYWHERE.lock().ok().and_then(|g| g.clone()).unwrap_or_else(|| "panic".to_owned());
            if msg.starts_with("MACHINERY") {
                eprintln!("{msg}");
                return 2;
            }
            let dir = std::env::var("VERIF_REPLAY_DIR").unwrap_or_else(|_| format!("{}/replays", std::env::var("VERIF_DIR").unwrap_or_else(|_| "/verif".into())));
            let dir = format!("{dir}/{property}");
            std::fs::create_dir_all(&dir).ok();
            let path = format!("{dir}/violation-uncaught-panic.json");
            std::fs::write(&path, serde_json::json!({"kind": "violation", "property": property, "what": format!("panic in the code under test: {msg}")}).to_string()).ok();
            println!("VIOLATION property={property} replay={path}");
            println!("  what: panic in the code under test (not caught by a scenario): {msg}");
            1
        }
    }
}

pub fn take_last_panic() -> Option<String> {
    LAST_PANIC.with(|p| p.borrow_mut().take())
}

/// Run `f`, converting a panic into `Err(message)`.
pub fn catch<R>(f: impl FnOnce() -> R) -> Result<R, String> {
    match std::panic::catch_unwind(std::panic::AssertUnwindSafe(f)) {
        Ok(r) => Ok(r),
        Err(_) => Err(take_last_panic().unwrap_or_else(|| "panic".to_owned())),
    }
}
