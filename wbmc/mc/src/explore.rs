//! Layer-synchronous exploration of operation histories on the real code.
//!
//! A *state* is represented by the shortest (then lexicographically smallest) history that
//! reaches it; live objects (tokio channels, oneshot senders) cannot be cloned, so every
//! transition re-executes its history on a fresh instance. With `dedup` the successor is
//! identified by the fingerprint the scenario computes from a complete state snapshot
//! (`graph` engine); without, every history is its own state (`tree` engine).

use crate::util::{catch, par_map, rss_mib};
use serde_json::{Value, json};
use std::{
    collections::{BTreeMap, BTreeSet, HashSet},
    sync::atomic::{AtomicBool, Ordering},
    time::{Duration, Instant},
};

#[derive(Debug, Clone)]
pub enum Verdict {
    Ok,
    /// The step deviates from the documented behaviour exactly as the listed open findings say.
    Known(Vec<(String, String)>),
    Violation(String),
}

#[derive(Debug, Clone)]
pub struct StepOut {
    pub fingerprint: u64,
    pub verdict: Verdict,
    /// e.g. "set:Ok" – used to count distinct outcome classes (vacuity guard)
    pub class: String,
}

pub trait Scenario: Sync {
    fn num_ops(&self) -> usize;
    fn op_json(&self, op: u16) -> Value;
    /// Execute `history` on a fresh instance of the real code and of the reference; the oracle is
    /// evaluated on the last step (earlier steps were checked when they were last).
    /// `None`: the last operation is not enabled in the state reached by the prefix.
    fn run(&self, history: &[u16]) -> Option<StepOut>;
}

#[derive(Debug, Clone)]
pub struct Limits {
    pub max_depth: usize,
    /// a cap hit before this depth is complete is a machinery failure
    pub min_depth: usize,
    pub dedup: bool,
    pub wall: Duration,
    pub max_rss_mib: u64,
    /// number of transitions executed twice to check determinism
    pub selfcheck: usize,
    pub max_states_per_layer: usize,
}

impl Default for Limits {
    fn default() -> Self {
        Limits {
            max_depth: 3,
            min_depth: 1,
            dedup: true,
            wall: Duration::from_secs(45),
            max_rss_mib: 24_000,
            selfcheck: 32,
            max_states_per_layer: usize::MAX,
        }
    }
}

#[derive(Debug, Default)]
pub struct ExploreStats {
    pub states: u64,
    pub transitions: u64,
    pub executions: u64,
    pub disabled: u64,
    pub depth_completed: usize,
    pub exhausted: bool,
    pub capped: Option<String>,
    pub per_layer: Vec<u64>,
    pub classes: BTreeSet<String>,
    pub known: BTreeMap<String, (u64, String, Vec<u16>)>,
    pub violations: Vec<(Vec<u16>, String)>,
    pub machinery: Vec<String>,
    pub samples: Vec<Vec<u16>>,
    pub selfchecked: u64,
}

impl ExploreStats {
    pub fn history_json(sc: &dyn Scenario, h: &[u16]) -> Value {
        Value::Array(h.iter().map(|o| sc.op_json(*o)).collect())
    }

    pub fn coverage_json(&self, sc: &dyn Scenario) -> Value {
        json!({
            "states": self.states,
            "transitions": self.transitions,
            "executions": self.executions,
            "ops_not_enabled": self.disabled,
            "depth_completed": self.depth_completed,
            "fixpoint_reached": self.exhausted,
            "cap_hit": self.capped,
            "states_per_layer": self.per_layer,
            "distinct_outcome_classes": self.classes.len(),
            "outcome_classes": self.classes.iter().collect::<Vec<_>>(),
            "determinism_selfchecks": self.selfchecked,
            "samples": self.samples.iter().map(|h| Self::history_json(sc, h)).collect::<Vec<_>>(),
        })
    }
}

pub fn explore(sc: &dyn Scenario, lim: &Limits) -> ExploreStats {
    let start = Instant::now();
    let mut st = ExploreStats::default();
    let mut seen: HashSet<u64> = HashSet::new();
    let mut frontier: Vec<Vec<u16>> = vec![vec![]];
    st.states = 1;
    st.per_layer.push(1);
    let nops = sc.num_ops() as u16;
    let stop = AtomicBool::new(false);
    let seed = crate::util::seed().unsigned_abs() as usize;

    for depth in 1..=lim.max_depth {
        if frontier.is_empty() {
            st.exhausted = true;
            break;
        }
        // work items: (representative index, op)
        let mut items: Vec<(u32, u16)> = Vec::with_capacity(frontier.len() * nops as usize);
        for (i, _) in frontier.iter().enumerate() {
            for op in 0..nops {
                items.push((i as u32, op));
            }
        }
        let check_every = (items.len() / lim.selfcheck.max(1)).max(1);
        let results = par_map(&items, |idx, (rep, op)| {
            if stop.load(Ordering::Relaxed) {
                return None;
            }
            if idx % 64 == 0
                && (start.elapsed() > lim.wall || rss_mib() > lim.max_rss_mib)
            {
                stop.store(true, Ordering::Relaxed);
                return None;
            }
            let mut h = frontier[*rep as usize].clone();
            h.push(*op);
            let r = catch(|| sc.run(&h));
            let twice = if (idx + seed) % check_every == 0 {
                Some(catch(|| sc.run(&h)))
            } else {
                None
            };
            Some((r, twice))
        });
        let layer_incomplete = stop.load(Ordering::Relaxed);
        if layer_incomplete {
            st.capped = Some(format!(
                "wall/RSS cap hit inside layer {depth} after {:.1}s, rss {} MiB; layer {depth} is incomplete (its executed transitions are counted and checked, but the depth is not reported as completed)",
                start.elapsed().as_secs_f64(),
                rss_mib()
            ));
            if depth <= lim.min_depth {
                st.machinery.push(format!(
                    "cap hit before the minimum depth {} was complete",
                    lim.min_depth
                ));
            }
        }
        let mut next: Vec<Vec<u16>> = vec![];
        for (idx, res) in results.into_iter().enumerate() {
            let (rep, op) = items[idx];
            let Some((r, twice)) = res else { continue };
            let mut h = frontier[rep as usize].clone();
            h.push(op);
            st.executions += 1;
            let fp_class = |r: &Result<Option<StepOut>, String>| match r {
                Ok(Some(o)) => format!("{}|{}|{:?}", o.fingerprint, o.class, matches!(o.verdict, Verdict::Violation(_))),
                Ok(None) => "disabled".to_owned(),
                Err(e) => format!("panic:{e}"),
            };
            if let Some(t) = &twice {
                st.executions += 1;
                st.selfchecked += 1;
                if fp_class(&r) != fp_class(t) {
                    st.machinery.push(format!(
                        "determinism self-check failed for history {:?}: {} vs {}",
                        h,
                        fp_class(&r),
                        fp_class(t)
                    ));
                }
            }
            match r {
                Err(msg) => {
                    if msg.starts_with("MACHINERY") {
                        st.machinery.push(format!("{msg} (history {h:?})"));
                    } else {
                        st.transitions += 1;
                        st.classes.insert("panic".to_owned());
                        if st.violations.len() < 200 {
                            st.violations.push((h, format!("panic in the code under test: {msg}")));
                        }
                    }
                }
                Ok(None) => st.disabled += 1,
                Ok(Some(out)) => {
                    st.transitions += 1;
                    st.classes.insert(out.class.clone());
                    match out.verdict {
                        Verdict::Violation(msg) => {
                            if st.violations.len() < 200 {
                                st.violations.push((h, msg));
                            }
                            continue;
                        }
                        Verdict::Known(hits) => {
                            for (sig, what) in hits {
                                let e = st
                                    .known
                                    .entry(sig)
                                    .or_insert_with(|| (0, what, h.clone()));
                                e.0 += 1;
                            }
                        }
                        Verdict::Ok => {}
                    }
                    let is_new = if lim.dedup {
                        seen.insert(out.fingerprint)
                    } else {
                        true
                    };
                    if is_new {
                        if st.samples.len() < 6 && (idx + seed) % 7 == 0 {
                            st.samples.push(h.clone());
                        }
                        next.push(h);
                    }
                }
            }
        }
        st.states += next.len() as u64;
        if layer_incomplete {
            st.per_layer.push(next.len() as u64);
            break;
        }
        st.depth_completed = depth;
        st.per_layer.push(next.len() as u64);
        if st.samples.is_empty() {
            if let Some(h) = next.last() {
                st.samples.push(h.clone());
            }
        }
        if next.len() > lim.max_states_per_layer {
            st.capped = Some(format!(
                "layer {depth} has {} new states (> {}), not expanding further",
                next.len(),
                lim.max_states_per_layer
            ));
            break;
        }
        frontier = next;
        if frontier.is_empty() {
            st.exhausted = true;
            break;
        }
        if start.elapsed() > lim.wall {
            st.capped = Some(format!(
                "wall cap reached after completing depth {depth} ({:.1}s)",
                start.elapsed().as_secs_f64()
            ));
            break;
        }
    }
    st
}
