//! C19 — a node takes the leader role only with a quorum of distinct peers' votes.
//!
//! The real `elect_leader` runs on a paused current-thread runtime against harness-owned UDP
//! sockets that play the configured peers (and strangers); every sequence of scripted peer
//! behaviours up to a depth is enumerated for every cluster size and configured quorum.

use mc::{Evidence, Limits, Report, Scenario, StepOut, Verdict, explore, util::hash_str};
use serde_json::{Value, json};
use std::{
    collections::BTreeSet,
    net::{IpAddr, Ipv4Addr, SocketAddr},
    sync::{Arc, Mutex},
    time::Duration,
};
use tokio::{net::UdpSocket, sync::mpsc};
use tosub::SubsystemHandle;
use worterbuch_cluster_orchestrator::verif::*;

const T_MS: u64 = 400;
const MY_PRIO: i64 = 100;

#[derive(Clone, Debug, PartialEq)]
enum Step {
    /// vote response from the lowest-numbered configured peer that has not voted since the node's
    /// last vote-request broadcast
    VoteNew,
    /// vote response from a configured peer that already voted since the last broadcast
    VoteDup,
    /// vote response carrying an id that is not configured
    VoteUnknown,
    /// vote response carrying the node's own id (forged, or a misconfigured peer)
    VoteSelf,
    /// vote request from configured peer 0 with a priority that is higher / equal / lower
    VoteReq(i8),
    /// vote request from a stranger with a higher priority
    VoteReqUnknown,
    /// heartbeat request ("I am leader") from configured peer 0
    HbReq,
    HbReqUnknown,
    HbResp,
    /// the cluster configuration changes while the election runs: two more nodes are configured
    /// (the quorum in effect follows the new node count unless one is configured explicitly)
    Grow,
    /// let the election timeout pass (advance until the vote requests go out)
    Timeout,
    /// nothing arrives for one heartbeat timeout
    Silence,
}

struct ElectionScenario {
    n: usize,
    quorum_configured: Option<usize>,
    steps: Vec<Step>,
    /// 0: every history; 1: only histories starting with `Timeout` followed by votes (to reach large
    /// quorums); 2: only histories of election rounds - `Timeout`, votes of configured peers,
    /// `Silence` (the round expires), `Timeout` again … - so that several complete rounds fit into
    /// the depth (votes of an expired round must not count in the next one)
    family: u8,
}

async fn spin(n: usize) {
    for _ in 0..n {
        tokio::task::yield_now().await;
    }
}

async fn subsystem() -> SubsystemHandle {
    let (tx, mut rx) = mpsc::channel::<SubsystemHandle>(1);
    tokio::spawn(async move {
        tosub::build_root("wbmc")
            .catch_no_signals()
            .no_shutdown_on_stdin_close()
            .start(move |s: SubsystemHandle| async move {
                tx.send(s.clone()).await.ok();
                s.shutdown_requested().await;
                Ok::<(), miette::Error>(())
            })
            .await
            .ok();
    });
    loop {
        if let Ok(s) = rx.try_recv() {
            return s;
        }
        tokio::task::yield_now().await;
    }
}

#[derive(Debug, Clone, PartialEq)]
enum Phase {
    Waiting,
    Collecting,
    AwaitingHeartbeat,
}

fn msg_vote_response(id: &str) -> Vec<u8> {
    json!({"vote": {"response": {"nodeId": id}}}).to_string().into_bytes()
}
fn msg_vote_request(id: &str, prio: i64) -> Vec<u8> {
    json!({"vote": {"request": {"nodeId": id, "priority": prio}}}).to_string().into_bytes()
}
fn msg_hb_request(id: &str) -> Vec<u8> {
    json!({"heartbeat": {"request": {"nodeId": id}}}).to_string().into_bytes()
}
fn msg_hb_response(id: &str) -> Vec<u8> {
    json!({"heartbeat": {"response": {"nodeId": id}}}).to_string().into_bytes()
}

impl Scenario for ElectionScenario {
    fn num_ops(&self) -> usize {
        self.steps.len()
    }
    fn op_json(&self, op: u16) -> Value {
        json!(format!("{:?}", self.steps[op as usize]))
    }
    fn run(&self, history: &[u16]) -> Option<StepOut> {
        if self.family != 0 {
            for (i, o) in history.iter().enumerate() {
                let s = &self.steps[*o as usize];
                let ok = if i == 0 {
                    *s == Step::Timeout
                } else if self.family == 1 {
                    matches!(s, Step::VoteNew | Step::VoteDup | Step::VoteUnknown | Step::VoteSelf)
                } else {
                    matches!(s, Step::VoteNew | Step::VoteDup | Step::VoteSelf | Step::Silence | Step::Timeout | Step::Grow)
                };
                if !ok {
                    return None;
                }
            }
        }
        let rt = tokio::runtime::Builder::new_current_thread()
            .enable_all()
            .event_interval(1)
            .start_paused(true)
            .build()
            .expect("runtime");
        let out = rt.block_on(async {
            let localhost = IpAddr::V4(Ipv4Addr::LOCALHOST);
            let subsys = subsystem().await;
            let node_socket = UdpSocket::bind((localhost, 0)).await.expect("MACHINERY: bind");
            let node_addr: SocketAddr = node_socket.local_addr().expect("addr");
            // configured peers p0..p(n-2) and one stranger
            let mut peer_socks = vec![];
            let mut infos = vec![];
            for i in 0..self.n.saturating_sub(1) {
                let s = UdpSocket::bind((localhost, 0)).await.expect("MACHINERY: bind");
                let port = s.local_addr().expect("addr").port();
                infos.push(peer_info(&format!("p{i}"), localhost, port, 10_000 + i as u16));
                peer_socks.push(s);
            }
            let stranger = UdpSocket::bind((localhost, 0)).await.expect("MACHINERY: bind");
            // two nodes that join the configuration at a `Grow` step
            let mut extra_socks = vec![];
            let mut extra_infos = vec![];
            for i in 0..2usize {
                let s = UdpSocket::bind((localhost, 0)).await.expect("MACHINERY: bind");
                let port = s.local_addr().expect("addr").port();
                extra_infos.push(peer_info(&format!("p{}", self.n.saturating_sub(1) + i), localhost, port, 11_000 + i as u16));
                extra_socks.push(s);
            }
            let mut grown = false;
            let cfg = match config("me", T_MS, node_addr.port(), 9_999, self.quorum_configured, &infos, Some(MY_PRIO), "/nonexistent/worterbuch", "/nonexistent/data".into()) {
                Ok(c) => c,
                Err(_) => return Some(StepOut { fingerprint: hash_str("rejected-config"), verdict: Verdict::Ok, class: "config-rejected".into() }),
            };
            let mut quorum = cfg.quorum;
            let mut n = self.n;
            // the documented quorum
            let expected_quorum = self.quorum_configured.unwrap_or(n / 2 + 1);
            if quorum != expected_quorum || quorum > n {
                return Some(StepOut {
                    fingerprint: 0,
                    verdict: Verdict::Violation(format!("effective quorum {quorum} for {n} nodes with configured quorum {:?} (documented: {expected_quorum}, at most {n})", self.quorum_configured)),
                    class: "quorum".into(),
                });
            }
            let outcome: Arc<Mutex<Option<Result<String, String>>>> = Arc::new(Mutex::new(None));
            let o2 = outcome.clone();
            let (peers_tx, mut peers_rx) = mpsc::channel(1);
            let s2 = subsys.clone();
            let peers_cfg = infos.clone();
            tokio::spawn(async move {
                let mut socket = node_socket;
                let mut cfg = cfg;
                let mut p = peers(peers_cfg);
                let r = elect_leader(&s2, &mut socket, &mut cfg, &mut p, &mut peers_rx, priority(MY_PRIO)).await;
                *o2.lock().expect("lock") = Some(match r {
                    Ok(ElectionOutcome::Leader) => Ok("leader".to_owned()),
                    Ok(ElectionOutcome::Follower(hb)) => Ok(format!("follower:{}", heartbeat_node_id(&hb))),
                    Ok(ElectionOutcome::Cancelled) => Ok("cancelled".to_owned()),
                    Err(e) => Err(e.to_string()),
                });
            });
            spin(30).await;
            let mut phase = Phase::Waiting;
            let mut voted: BTreeSet<usize> = BTreeSet::new(); // configured peers that voted since the last broadcast
            let mut broadcasts = 0usize;
            let mut hb_from: BTreeSet<String> = BTreeSet::new(); // ids that ever sent a heartbeat request
            let mut buf = [0u8; 2048];
            let mut class = String::new();
            // read what the node sent to the peers; returns (vote requests seen, vote responses seen)
            let mut drain = |peer_socks: &Vec<UdpSocket>, stranger: &UdpSocket| -> (usize, usize) {
                let mut reqs = 0;
                let mut resps = 0;
                for s in peer_socks.iter().chain(std::iter::once(stranger)) {
                    while let Ok((len, _)) = s.try_recv_from(&mut buf) {
                        let v: Value = serde_json::from_slice(&buf[..len]).unwrap_or_default();
                        if v["vote"]["request"].is_object() {
                            reqs += 1;
                        }
                        if v["vote"]["response"].is_object() {
                            resps += 1;
                        }
                    }
                }
                (reqs, resps)
            };
            for (i, o) in history.iter().enumerate() {
                let last = i + 1 == history.len();
                if outcome.lock().expect("lock").is_some() {
                    subsys.request_global_shutdown();
                    if last {
                        return None;
                    }
                    panic!("MACHINERY: election already decided in prefix");
                }
                let step = &self.steps[*o as usize];
                let have_peer = !peer_socks.is_empty();
                let enabled = match step {
                    Step::VoteNew => have_peer && voted.len() < peer_socks.len(),
                    Step::VoteDup => !voted.is_empty(),
                    Step::VoteReq(_) | Step::HbReq | Step::HbResp => have_peer,
                    Step::Timeout => phase == Phase::Waiting,
                    Step::Grow => !grown && self.quorum_configured.map(|q| q <= self.n).unwrap_or(true),
                    Step::Silence => phase != Phase::Waiting,
                    _ => true,
                };
                if !enabled {
                    subsys.request_global_shutdown();
                    if last {
                        return None;
                    }
                    panic!("MACHINERY: step not enabled in prefix");
                }
                match step {
                    Step::VoteNew => {
                        let idx = (0..peer_socks.len()).find(|i| !voted.contains(i)).expect("peer");
                        peer_socks[idx].send_to(&msg_vote_response(&format!("p{idx}")), node_addr).await.ok();
                        if phase == Phase::Collecting {
                            voted.insert(idx);
                        }
                    }
                    Step::VoteDup => {
                        let idx = *voted.iter().next().expect("voted");
                        peer_socks[idx].send_to(&msg_vote_response(&format!("p{idx}")), node_addr).await.ok();
                    }
                    Step::VoteUnknown => {
                        stranger.send_to(&msg_vote_response("stranger"), node_addr).await.ok();
                    }
                    Step::VoteSelf => {
                        stranger.send_to(&msg_vote_response("me"), node_addr).await.ok();
                    }
                    Step::VoteReq(rel) => {
                        // numerically lower = higher priority
                        let prio = MY_PRIO - (*rel as i64) * 10;
                        peer_socks[0].send_to(&msg_vote_request("p0", prio), node_addr).await.ok();
                    }
                    Step::VoteReqUnknown => {
                        stranger.send_to(&msg_vote_request("stranger", MY_PRIO - 50), node_addr).await.ok();
                    }
                    Step::HbReq => {
                        hb_from.insert("p0".into());
                        peer_socks[0].send_to(&msg_hb_request("p0"), node_addr).await.ok();
                    }
                    Step::HbReqUnknown => {
                        hb_from.insert("stranger".into());
                        stranger.send_to(&msg_hb_request("stranger"), node_addr).await.ok();
                    }
                    Step::HbResp => {
                        peer_socks[0].send_to(&msg_hb_response("p0"), node_addr).await.ok();
                    }
                    Step::Grow => {
                        grown = true;
                        let mut all = infos.clone();
                        all.extend(extra_infos.iter().cloned());
                        let me = peer_info("me", localhost, node_addr.port(), 9_999);
                        peers_tx.send((peers(all), me, None)).await.ok();
                        spin(40).await;
                        peer_socks.append(&mut extra_socks);
                        n += 2;
                        quorum = self.quorum_configured.unwrap_or(n / 2 + 1);
                        // the round starts over with the new configuration
                        phase = Phase::Waiting;
                        voted.clear();
                    }
                    Step::Timeout => {
                        // the election timeout is t + random(0..t): advance in t/8 steps until the
                        // vote requests go out (or the node decides)
                        let mut advanced = 0;
                        loop {
                            tokio::time::advance(Duration::from_millis(T_MS / 8)).await;
                            spin(40).await;
                            advanced += T_MS / 8;
                            let (reqs, _) = drain(&peer_socks, &stranger);
                            if reqs > 0 {
                                broadcasts += 1;
                                phase = Phase::Collecting;
                                voted.clear();
                                break;
                            }
                            if outcome.lock().expect("lock").is_some() || advanced > 2 * T_MS + T_MS / 4 {
                                break;
                            }
                        }
                    }
                    Step::Silence => {
                        tokio::time::advance(Duration::from_millis(T_MS + 1)).await;
                        spin(40).await;
                        phase = Phase::Waiting;
                        voted.clear();
                    }
                }
                spin(40).await;
                let (reqs, resps) = drain(&peer_socks, &stranger);
                if reqs > 0 {
                    broadcasts += 1;
                    phase = Phase::Collecting;
                    voted.clear();
                }
                if resps > 0 {
                    // the node supported another candidate and now waits for its heartbeat
                    phase = Phase::AwaitingHeartbeat;
                    voted.clear();
                }
                class = format!("{step:?}").split('(').next().unwrap_or("").to_owned();
            }
            let decided = outcome.lock().expect("lock").clone();
            let mut violation = None;
            let mut tag = "undecided".to_owned();
            match decided {
                Some(Ok(o)) if o == "leader" => {
                    tag = "leader".into();
                    let votes = voted.len() + 1;
                    if votes < quorum {
                        violation = Some(format!(
                            "the node became leader with {} vote(s) of distinct configured peers since its last vote request plus its own = {votes}, quorum is {quorum} ({n} nodes, configured {:?}); vote-request broadcasts seen: {broadcasts}",
                            voted.len(),
                            self.quorum_configured
                        ));
                    }
                }
                Some(Ok(o)) if o.starts_with("follower:") => {
                    let id = o.trim_start_matches("follower:").to_owned();
                    tag = "follower".into();
                    let configured = infos.iter().any(|_| true) && (0..peer_socks.len()).any(|i| format!("p{i}") == id);
                    if !hb_from.contains(&id) {
                        violation = Some(format!("the node follows '{id}', which never announced itself as leader"));
                    } else if !configured {
                        // follow() must not start anything for a node that is not configured
                        tag = "follower-of-stranger".into();
                        let mut sock = UdpSocket::bind((localhost, 0)).await.expect("bind");
                        let cfg2 = config("me", T_MS, 1, 9_999, self.quorum_configured, &infos, Some(MY_PRIO), "/nonexistent/worterbuch", "/nonexistent/data".into()).expect("config");
                        let p2 = peers(infos.clone());
                        let hb: HeartbeatRequest = serde_json::from_value(json!({"nodeId": id})).expect("hb");
                        let done: Arc<Mutex<bool>> = Arc::new(Mutex::new(false));
                        let d2 = done.clone();
                        let s3 = subsys.clone();
                        tokio::spawn(async move {
                            follow(&s3, &mut sock, &cfg2, &p2, hb).await.ok();
                            *d2.lock().expect("lock") = true;
                        });
                        spin(50).await;
                        if !*done.lock().expect("lock") {
                            violation = Some(format!("the node starts a follower for '{id}', which is not a configured peer"));
                        }
                    }
                }
                Some(Ok(o)) => tag = o,
                Some(Err(e)) => tag = format!("error:{}", e.chars().take(30).collect::<String>()),
                None => {}
            }
            subsys.request_global_shutdown();
            spin(10).await;
            Some(StepOut {
                fingerprint: hash_str(&format!("{history:?}")),
                verdict: match violation {
                    Some(v) => Verdict::Violation(v),
                    None => Verdict::Ok,
                },
                class: format!("{class}:{tag}"),
            })
        });
        drop(rt);
        out
    }
}

fn all_steps() -> Vec<Step> {
    vec![
        Step::Timeout,
        Step::VoteNew,
        Step::VoteDup,
        Step::VoteUnknown,
        Step::VoteSelf,
        Step::VoteReq(1),
        Step::VoteReq(0),
        Step::VoteReq(-1),
        Step::VoteReqUnknown,
        Step::HbReq,
        Step::HbReqUnknown,
        Step::HbResp,
        Step::Silence,
        Step::Grow,
    ]
}

fn main() {
    let args: Vec<String> = std::env::args().collect();
    if args.len() < 2 || args[1] != "C19" {
        eprintln!("usage: wbmc-orch C19 [quick|thorough]");
        std::process::exit(2);
    }
    mc::util::install_quiet_panic_hook();
    let tier = args.get(2).cloned().or_else(|| std::env::var("VERIF_TIER").ok()).filter(|t| t == "thorough").unwrap_or_else(|| "quick".to_owned());
    let thorough = tier == "thorough";
    let code = mc::util::guard_main("C19", || {
    let mut ev = Evidence::new("C19", &tier, "model_checking");
    let mut rep = Report::new("C19");
    // the quorum rule itself, exhaustively
    let mut sanity = 0u64;
    for n in 1..=7usize {
        let infos: Vec<PeerInfo> = (0..n - 1).map(|i| peer_info(&format!("p{i}"), IpAddr::V4(Ipv4Addr::LOCALHOST), 1000 + i as u16, 2000 + i as u16)).collect();
        for q in std::iter::once(None).chain((0..=8).map(Some)) {
            sanity += 1;
            let r = quorum_sanity_check(q, &infos);
            let want_ok = q.map(|q| q <= n).unwrap_or(true);
            match r {
                Ok((eff, _)) => {
                    let want = q.unwrap_or(n / 2 + 1);
                    if !want_ok || eff != want {
                        rep.violation(format!("quorum_sanity_check({q:?}, {n} nodes) = {eff}, documented: {}", if want_ok { want.to_string() } else { "rejected".into() }), json!({"nodes": n, "quorum": q}));
                    }
                }
                Err(_) => {
                    if want_ok {
                        rep.violation(format!("quorum_sanity_check({q:?}, {n} nodes) rejected a satisfiable quorum"), json!({"nodes": n, "quorum": q}));
                    }
                }
            }
        }
    }
    ev.set("quorum_rule_cases", json!(sanity));
    let mut classes = BTreeSet::new();
    let mut outcomes: std::collections::BTreeMap<String, u64> = Default::default();
    let max_n = if thorough { 7 } else { 5 };
    let mut exhaustive = true;
    for n in 1..=max_n {
        let quorums: Vec<Option<usize>> = std::iter::once(None).chain((1..=n).map(Some)).collect();
        for q in quorums {
            let eff = q.unwrap_or(n / 2 + 1);
            let depth = if thorough { if n <= 5 { 5 } else { 4 } } else if n <= 3 { 4 } else { 3 };
            let rounds_depth = if thorough { 9 } else { 7 };
            for (name, family, d) in [("all", 0u8, depth), ("votes", 1, eff + 2), ("rounds", 2, rounds_depth)] {
                if family == 1 && eff + 2 <= depth {
                    continue;
                }
                if family == 2 && (n == 1 || eff == 1) {
                    continue; // decided by the node's own vote, no round ever expires
                }
                let sc = ElectionScenario { n, quorum_configured: q, steps: all_steps(), family };
                let lim = Limits { max_depth: d, min_depth: 2, dedup: false, wall: Duration::from_secs(if thorough { 240 } else { 20 }), selfcheck: 8, ..Default::default() };
                let stats = explore(&sc, &lim);
                let label = format!("n{n}-q{}-{name}", q.map(|q| q.to_string()).unwrap_or_else(|| "default".into()));
                for c in &stats.classes {
                    classes.insert(c.clone());
                    let tag = c.split(':').nth(1).unwrap_or("").to_owned();
                    *outcomes.entry(format!("{label}:{tag}")).or_default() += 1;
                }
                if stats.capped.is_some() {
                    exhaustive = false;
                }
                eprintln!("[C19/{label}] transitions={} depth={} classes={} violations={} cap={:?}", stats.transitions, stats.depth_completed, stats.classes.len(), stats.violations.len(), stats.capped.as_ref().map(|c| &c[..30.min(c.len())]));
                ev.add("states", stats.states);
                ev.add("transitions", stats.transitions);
                ev.add("evaluations", stats.executions);
                ev.add("traces_validated_against_impl", stats.transitions);
                for h in stats.samples.iter().take(1) {
                    ev.push_sample(json!({"scenario": label, "history": mc::ExploreStats::history_json(&sc, h)}));
                }
                for (h, msg) in &stats.violations {
                    rep.violation(msg.clone(), json!({"scenario": label, "history": h, "ops": mc::ExploreStats::history_json(&sc, h)}));
                }
                for m in &stats.machinery {
                    rep.machinery(format!("{label}: {m}"));
                }
            }
        }
    }
    // vacuity guard: the leader outcome must have been reached for every configuration
    ev.set("outcome_classes_per_configuration", json!(outcomes.keys().collect::<Vec<_>>().len()));
    ev.set("configurations_with_leader_outcome", json!(outcomes.keys().filter(|k| k.ends_with(":leader")).map(|k| k.rsplitn(3, '-').last().unwrap_or("").to_owned() + "-" + k.split('-').nth(1).unwrap_or("")).collect::<BTreeSet<_>>().len()));
    ev.set("distinct_nontrivial", json!(classes.len()));
    ev.set("exhaustive", json!(exhaustive));
    ev.set("rule", json!(format!("cluster sizes 1..{max_n}, configured quorum none or 1..n; for each configuration every sequence of scripted peer behaviours (vote from a new / duplicate / unknown node / carrying the node's own id, vote request with higher / equal / lower priority, from a stranger, heartbeat request from a member / stranger, heartbeat response, election timeout, silence, growth of the configured cluster by two nodes while the election runs) up to the completed depth, plus the timeout-then-votes paths up to quorum+2 so that the leader outcome is reachable for every quorum, plus the election-round paths (timeout, votes of configured peers, expiry of the round, timeout, votes …) up to depth {rounds} so that votes of expired rounds are offered to later rounds; distinct_nontrivial counts distinct (last step, outcome) classes", rounds = if thorough { 9 } else { 7 })));
    ev.assume("safety only: 'leader' implies votes from at least quorum-1 distinct configured peers since the node's latest vote-request broadcast; 'follower' implies a heartbeat request from that node, and follow() returns without starting anything for a node that is not configured; liveness is not asserted");
    ev.assume("paused tokio clock, real loopback UDP sockets, the harness never parks (fixed number of yields per step, event_interval 1); the randomized election timeout (t..2t) is crossed by advancing in t/8 steps until the vote requests are observed");
    ev.assume("senders are chosen canonically (lowest-numbered configured peer): the election code inspects a peer's identity only for membership and equality");
    ev.assume("lead() / the server process itself are not started: ElectionOutcome::Leader is what run_main turns into lead() without further conditions");
    rep.finish(&mut ev)
    });
    std::process::exit(code);
}
