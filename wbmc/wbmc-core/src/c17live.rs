//! C17 with the server's default configuration (`extended_monitoring` on): the monitoring code
//! writes wall-clock values and per-subscription entries into `$SYS`, so the reference model cannot
//! predict the stored tree; the oracle here is what C17 itself states - the core task stays alive,
//! a well-formed request does not end the adversary's session, and the witness session's requests
//! keep getting the right answers.

use crate::{ops::*, real::*, session::*};
use mc::{Scenario, StepOut, Verdict, util::hash_str};
use serde_json::{Value, json};
use worterbuch::verif::Worterbuch;
use worterbuch_common::{ClientMessage as CM, ServerMessage as SM, *};

pub struct LiveScenario {
    pub lines: Vec<CM>,
}

fn text(m: &CM) -> String {
    serde_json::to_string(m).expect("json")
}

impl Scenario for LiveScenario {
    fn num_ops(&self) -> usize {
        self.lines.len()
    }
    fn op_json(&self, op: u16) -> Value {
        json!(text(&self.lines[op as usize]).chars().take(200).collect::<String>())
    }
    fn run(&self, history: &[u16]) -> Option<StepOut> {
        block_on(async {
            let mut cfg = base_config();
            cfg.extended_monitoring = true;
            let wb = Worterbuch::with_config(cfg.clone());
            let mut world = World::new(cfg, wb, &[0, 1]).await;
            world.drain(0);
            world.drain(1);
            let mut violation: Option<String> = None;
            let mut class = String::new();
            for (i, o) in history.iter().enumerate() {
                let last = i + 1 == history.len();
                let m = &self.lines[*o as usize];
                if !world.sessions[0].alive {
                    if last {
                        return None;
                    }
                    panic!("MACHINERY: closed session in prefix");
                }
                let kept = world.line(0, &text(m)).await;
                let out = world.drain(0);
                class = format!("{}:{}", serde_json::to_value(m).ok().and_then(|v| v.as_object().and_then(|o| o.keys().next().cloned())).unwrap_or_default(), if out.iter().any(|x| matches!(x, SM::Err(_))) { "err" } else { "ok" });
                if !world.core_alive() {
                    violation = Some(format!("the core task ended while processing {}: {}", self.op_json(*o), mc::util::take_last_panic().unwrap_or_default()));
                } else if !kept {
                    violation = Some(format!("the session was closed by the well-formed request {}", self.op_json(*o)));
                }
                if violation.is_some() {
                    if !last {
                        panic!("MACHINERY: prefix violated on replay: {violation:?}");
                    }
                    break;
                }
            }
            // the witness: set, get, pget, ls, delete on keys of its own
            if violation.is_none() {
                let script: Vec<(CM, Box<dyn Fn(&[SM]) -> bool>)> = vec![
                    (
                        CM::Set(Set { transaction_id: 5001, key: "w/x".into(), value: json!("w") }),
                        Box::new(|o: &[SM]| matches!(o, [SM::Ack(a)] if a.transaction_id == 5001)),
                    ),
                    (
                        CM::Get(Get { transaction_id: 5002, key: "w/x".into() }),
                        Box::new(|o: &[SM]| matches!(o, [SM::State(s)] if s.transaction_id == 5002 && s.event == StateEvent::Value(json!("w")))),
                    ),
                    (
                        CM::PGet(PGet { transaction_id: 5003, request_pattern: "w/?".into() }),
                        Box::new(|o: &[SM]| {
                            matches!(o, [SM::PState(p)] if p.transaction_id == 5003 && p.event == PStateEvent::KeyValuePairs(vec![KeyValuePair { key: "w/x".into(), value: json!("w") }]))
                        }),
                    ),
                    (
                        CM::Ls(Ls { transaction_id: 5004, parent: Some("w".into()) }),
                        Box::new(|o: &[SM]| matches!(o, [SM::LsState(l)] if l.transaction_id == 5004 && l.children == vec!["x".to_owned()])),
                    ),
                    (
                        CM::Delete(Delete { transaction_id: 5005, key: "w/x".into() }),
                        Box::new(|o: &[SM]| matches!(o, [SM::State(s)] if s.transaction_id == 5005 && s.event == StateEvent::Deleted(json!("w")))),
                    ),
                ];
                for (m, ok) in script {
                    if !world.sessions[1].alive {
                        violation = Some("the witness session was closed".into());
                        break;
                    }
                    world.line(1, &text(&m)).await;
                    let out = world.drain(1);
                    if !world.core_alive() {
                        violation = Some(format!("the core task ended during the witness request {}: {}", text(&m), mc::util::take_last_panic().unwrap_or_default()));
                        break;
                    }
                    if !ok(&out) {
                        violation = Some(format!("witness request {} was answered with {out:?}", text(&m)));
                        break;
                    }
                }
            }
            Some(StepOut {
                fingerprint: hash_str(&format!("{history:?}")),
                verdict: match violation {
                    Some(v) => Verdict::Violation(v),
                    None => Verdict::Ok,
                },
                class,
            })
        })
    }
}

/// Every request kind that takes a key, pattern or parent x key shapes incl. long and non-ASCII ones.
pub fn scenario() -> LiveScenario {
    let own = cid(0).to_string();
    let keys: Vec<String> = vec![
        "a".into(),
        "a/b".into(),
        "a/?".into(),
        "a/#".into(),
        "#".into(),
        "".into(),
        "a//".into(),
        "$SYS/x".into(),
        format!("$SYS/clients/{own}"),
        format!("$SYS/clients/{own}/subscriptions/a"),
        "k".repeat(1000),
        vec!["d"; 40].join("/"),
        // non-ASCII, longer than anything the monitoring code might abbreviate, with multi-byte
        // characters at every small offset from round byte counts
        format!("{}é", "a".repeat(255)),
        format!("{}é", "a".repeat(127)),
        format!("{}€", "a".repeat(254)),
        "é".repeat(300),
        "😀".repeat(100),
        format!("ä/{}/ö", "ü".repeat(150)),
    ];
    let mut lines = vec![];
    let mut t = 20_000u64;
    for k in &keys {
        let mut next = || {
            t += 1;
            t
        };
        for m in [
            CM::Set(Set { transaction_id: next(), key: k.clone(), value: json!(1) }),
            CM::Get(Get { transaction_id: next(), key: k.clone() }),
            CM::PGet(PGet { transaction_id: next(), request_pattern: k.clone() }),
            CM::Delete(Delete { transaction_id: next(), key: k.clone() }),
            CM::PDelete(PDelete { transaction_id: next(), request_pattern: k.clone(), quiet: None }),
            CM::Publish(Publish { transaction_id: next(), key: k.clone(), value: json!(1) }),
            CM::Subscribe(Subscribe { transaction_id: next(), key: k.clone(), unique: false, live_only: Some(true) }),
            CM::PSubscribe(PSubscribe { transaction_id: next(), request_pattern: k.clone(), unique: false, aggregate_events: None, live_only: Some(true) }),
            CM::SubscribeLs(SubscribeLs { transaction_id: next(), parent: Some(k.clone()) }),
            CM::Ls(Ls { transaction_id: next(), parent: Some(k.clone()) }),
            CM::Lock(Lock { transaction_id: next(), key: k.clone() }),
            CM::SPubInit(SPubInit { transaction_id: next(), key: k.clone() }),
        ] {
            lines.push(m);
        }
    }
    // subscriptions are also taken down again (monitoring entries are removed)
    lines.push(CM::Unsubscribe(Unsubscribe { transaction_id: 20_007 }));
    lines.push(CM::UnsubscribeLs(UnsubscribeLs { transaction_id: 20_009 }));
    LiveScenario { lines }
}
