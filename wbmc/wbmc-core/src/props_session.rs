//! Alphabets of the session-level properties (C13, C17).

use crate::{ops::*, session::*};
use mc::Known;
use serde_json::json;
use worterbuch_common::{ClientMessage as CM, *};

fn s(x: &str) -> String {
    x.to_owned()
}

/// Every request kind of protocol v0 and v1 with valid and invalid arguments. Transaction ids are
/// distinct per line so that answers can be attributed.
pub fn request_lines(base: u64) -> Vec<CM> {
    let mut t = base;
    let mut next = || {
        t += 1;
        t
    };
    let own_gg = format!("$SYS/clients/{}/graveGoods", cid(0));
    vec![
        CM::Set(Set { transaction_id: next(), key: s("a/b"), value: json!(1) }),
        CM::Set(Set { transaction_id: next(), key: s("a"), value: json!(2) }),
        CM::Set(Set { transaction_id: next(), key: s("a/?"), value: json!(1) }),
        CM::Set(Set { transaction_id: next(), key: s("$SYS/x"), value: json!(1) }),
        CM::Set(Set { transaction_id: next(), key: s(""), value: json!(1) }),
        CM::Set(Set { transaction_id: next(), key: own_gg.clone(), value: json!(["a/#"]) }),
        CM::CSet(CSet { transaction_id: next(), key: s("c"), value: json!(1), version: 0 }),
        CM::CSet(CSet { transaction_id: next(), key: s("c"), value: json!(2), version: 1 }),
        CM::CSet(CSet { transaction_id: next(), key: s("c"), value: json!(3), version: 7 }),
        CM::Set(Set { transaction_id: next(), key: s("c"), value: json!(9) }),
        CM::Get(Get { transaction_id: next(), key: s("a/b") }),
        CM::Get(Get { transaction_id: next(), key: s("zzz") }),
        CM::Get(Get { transaction_id: next(), key: s("a/#") }),
        CM::CGet(Get { transaction_id: next(), key: s("c") }),
        CM::CGet(Get { transaction_id: next(), key: s("zzz") }),
        CM::PGet(PGet { transaction_id: next(), request_pattern: s("a/?") }),
        CM::PGet(PGet { transaction_id: next(), request_pattern: s("?/?/?") }),
        CM::PGet(PGet { transaction_id: next(), request_pattern: s("a/#/b") }),
        CM::Delete(Delete { transaction_id: next(), key: s("a/b") }),
        CM::Delete(Delete { transaction_id: next(), key: s("zzz") }),
        CM::Delete(Delete { transaction_id: next(), key: s("$SYS/clients") }),
        CM::PDelete(PDelete { transaction_id: next(), request_pattern: s("a/?"), quiet: None }),
        CM::PDelete(PDelete { transaction_id: next(), request_pattern: s("a/?"), quiet: Some(true) }),
        CM::PDelete(PDelete { transaction_id: next(), request_pattern: s("#/a"), quiet: None }),
        CM::Ls(Ls { transaction_id: next(), parent: None }),
        CM::Ls(Ls { transaction_id: next(), parent: Some(s("a")) }),
        CM::Ls(Ls { transaction_id: next(), parent: Some(s("zzz")) }),
        CM::PLs(PLs { transaction_id: next(), parent_pattern: Some(s("?")) }),
        CM::PLs(PLs { transaction_id: next(), parent_pattern: None }),
        CM::Publish(Publish { transaction_id: next(), key: s("a/b"), value: json!(7) }),
        CM::Publish(Publish { transaction_id: next(), key: s("a/?"), value: json!(7) }),
        CM::SPubInit(SPubInit { transaction_id: 900 + base, key: s("a/b") }),
        CM::SPub(SPub { transaction_id: 900 + base, value: json!(8) }),
        CM::SPub(SPub { transaction_id: 901 + base, value: json!(8) }),
        CM::Subscribe(Subscribe { transaction_id: 910 + base, key: s("a/b"), unique: false, live_only: None }),
        CM::Subscribe(Subscribe { transaction_id: 911 + base, key: s("a/?"), unique: false, live_only: None }),
        CM::PSubscribe(PSubscribe { transaction_id: 912 + base, request_pattern: s("a/?"), unique: true, aggregate_events: None, live_only: Some(false) }),
        CM::PSubscribe(PSubscribe { transaction_id: 913 + base, request_pattern: s("a/#/b"), unique: false, aggregate_events: None, live_only: None }),
        CM::Subscribe(Subscribe { transaction_id: 914 + base, key: s("a"), unique: false, live_only: Some(true) }),
        CM::Unsubscribe(Unsubscribe { transaction_id: 914 + base }),
        CM::Unsubscribe(Unsubscribe { transaction_id: 910 + base }),
        CM::Unsubscribe(Unsubscribe { transaction_id: 912 + base }),
        CM::Unsubscribe(Unsubscribe { transaction_id: 999 }),
        CM::SubscribeLs(SubscribeLs { transaction_id: 920 + base, parent: Some(s("a")) }),
        CM::UnsubscribeLs(UnsubscribeLs { transaction_id: 920 + base }),
        CM::UnsubscribeLs(UnsubscribeLs { transaction_id: 998 }),
        CM::Lock(Lock { transaction_id: next(), key: s("l") }),
        CM::Lock(Lock { transaction_id: next(), key: s("l/?") }),
        CM::AcquireLock(Lock { transaction_id: next(), key: s("l") }),
        CM::ReleaseLock(Lock { transaction_id: next(), key: s("l") }),
        CM::ReleaseLock(Lock { transaction_id: next(), key: s("never") }),
        CM::Transform(Transform { transaction_id: next(), key: s("tr"), template: json!({}) }),
        CM::ProtocolSwitchRequest(ProtocolSwitchRequest { version: 0 }),
        CM::ProtocolSwitchRequest(ProtocolSwitchRequest { version: 1 }),
        // (appended, so that the indices used by `core_request_lines` stay put) a second ls
        // subscription on the same parent, unsubscribed independently of the first
        CM::SubscribeLs(SubscribeLs { transaction_id: 921 + base, parent: Some(s("a")) }),
        CM::UnsubscribeLs(UnsubscribeLs { transaction_id: 921 + base }),
        // an illegal pattern in the live-only variant (no snapshot lookup that would notice it)
        CM::PSubscribe(PSubscribe { transaction_id: 915 + base, request_pattern: s("a/#/b"), unique: false, aggregate_events: None, live_only: Some(true) }),
        CM::Subscribe(Subscribe { transaction_id: 916 + base, key: s("a/?"), unique: false, live_only: Some(true) }),
    ]
}

/// a reduced alphabet for the deeper exploration
pub fn core_request_lines(base: u64) -> Vec<CM> {
    let all = request_lines(base);
    let keep = [0usize, 2, 3, 6, 7, 9, 10, 13, 15, 17, 18, 21, 25, 29, 31, 32, 34, 36, 38, 39, 40, 43, 44, 46, 48, 49, 51, 52, 55, 56, 57, 58];
    keep.iter().filter_map(|i| all.get(*i).cloned()).collect()
}

fn witness_script() -> Vec<CM> {
    vec![
        CM::Set(Set { transaction_id: 5001, key: s("w/x"), value: json!("w") }),
        CM::Get(Get { transaction_id: 5002, key: s("w/x") }),
        CM::PGet(PGet { transaction_id: 5003, request_pattern: s("w/?") }),
        CM::Ls(Ls { transaction_id: 5004, parent: Some(s("w")) }),
        CM::Delete(Delete { transaction_id: 5005, key: s("w/x") }),
    ]
}

/// C13: session 0 issues the full alphabet, session 1 a few conflicting requests; both are checked.
pub fn c13(known: &Known, full: bool) -> SessionScenario {
    let mut lines = vec![];
    let a = if full { request_lines(0) } else { core_request_lines(0) };
    for m in a {
        lines.push((0usize, Line::Msg(m)));
    }
    for m in [
        CM::Set(Set { transaction_id: 2001, key: s("a/b"), value: json!(5) }),
        CM::Delete(Delete { transaction_id: 2002, key: s("a/b") }),
        CM::Lock(Lock { transaction_id: 2003, key: s("l") }),
        CM::AcquireLock(Lock { transaction_id: 2004, key: s("l") }),
        CM::ReleaseLock(Lock { transaction_id: 2005, key: s("l") }),
        CM::PSubscribe(PSubscribe { transaction_id: 2006, request_pattern: s("#"), unique: false, aggregate_events: None, live_only: Some(true) }),
    ] {
        lines.push((1usize, Line::Msg(m)));
    }
    SessionScenario {
        property: "C13".into(),
        clients: vec![0, 1],
        lines,
        candidates: crate::model::Flags::candidates(&known.open_for("C13")),
        check_all: true,
        witness: None,
        witness_script: vec![],
        dedup: true,
        tolerated: Default::default(),
    }
}

/// C13's reduced alphabet explored without de-duplication (short histories): state a change might add
/// and the snapshot cannot see is not merged away.
pub fn c13_nodedup(known: &Known) -> SessionScenario {
    let mut sc = c13(known, false);
    sc.dedup = false;
    sc
}

/// Findings of C08 that only change what the requesting client itself is told or sees (a publish on
/// a `$SYS` key is delivered): they neither stop the server nor touch another session, so C17 lets
/// the reference follow the server there without reporting; C08 reports them.
fn c17_tolerated() -> std::collections::BTreeSet<String> {
    [crate::model::SIG_PUBLISH.to_owned()].into_iter().collect()
}

fn c17_switches(known: &Known) -> std::collections::BTreeSet<String> {
    let mut open = known.open_for("C17");
    open.extend(c17_tolerated());
    open
}

/// C17: an adversary (session 0) sends anything; the witness (session 1) must keep getting
/// correct answers and the core must stay up.
pub fn c17(known: &Known, full: bool) -> SessionScenario {
    let mut lines: Vec<(usize, Line)> = vec![];
    let a = if full { request_lines(0) } else { core_request_lines(0) };
    for m in a {
        lines.push((0, Line::Msg(m)));
    }
    let long_key = "k".repeat(10_000);
    let deep_key = vec!["d"; 64].join("/");
    let raws: Vec<String> = vec![
        s(""),
        s("{}"),
        s("null"),
        s("{\"set\":{\"transactionId\":1,\"key\":\"a\""),
        s("{\"frobnicate\":{\"transactionId\":1}}"),
        s("{\"set\":{\"transactionId\":1,\"key\":\"a\",\"value\":1},\"get\":{\"transactionId\":2,\"key\":\"a\"}}"),
        s("{\"set\":{\"transactionId\":\"1\",\"key\":\"a\",\"value\":1}}"),
        s("{\"set\":{\"transactionId\":-1,\"key\":\"a\",\"value\":1}}"),
        s("{\"cSet\":{\"transactionId\":1,\"key\":\"a\",\"value\":1,\"version\":-5}}"),
        s("{\"get\":{\"transactionId\":18446744073709551616,\"key\":\"a\"}}"),
        s("[1,2,3]"),
        s("\u{0}\u{1}garbage"),
    ];
    for r in raws {
        lines.push((0, Line::Raw(r)));
    }
    for m in [
        CM::Set(Set { transaction_id: u64::MAX, key: long_key.clone(), value: json!(1) }),
        CM::Set(Set { transaction_id: 3001, key: deep_key.clone(), value: json!(1) }),
        CM::Delete(Delete { transaction_id: 3002, key: deep_key }),
        CM::CSet(CSet { transaction_id: 3003, key: s("x/y/z"), value: json!(1), version: 5 }),
        CM::CSet(CSet { transaction_id: 3004, key: s("c"), value: json!(1), version: u64::MAX }),
        CM::PDelete(PDelete { transaction_id: 3005, request_pattern: s("x/#"), quiet: None }),
        CM::Delete(Delete { transaction_id: 3006, key: s("x/y") }),
        CM::Ls(Ls { transaction_id: 3007, parent: Some(s("a//?/#")) }),
        CM::PLs(PLs { transaction_id: 3008, parent_pattern: Some(s("#")) }),
        CM::Subscribe(Subscribe { transaction_id: 910, key: s("a/b"), unique: false, live_only: None }),
        CM::SPub(SPub { transaction_id: u64::MAX, value: json!(null) }),
        CM::AuthorizationRequest(AuthorizationRequest { auth_token: s("not-a-token") }),
        CM::ProtocolSwitchRequest(ProtocolSwitchRequest { version: 77 }),
    ] {
        lines.push((0, Line::Msg(m)));
    }
    // the witness also acts in between
    lines.push((1, Line::Msg(CM::Set(Set { transaction_id: 4001, key: s("a/b"), value: json!("witness") }))));
    lines.push((1, Line::Msg(CM::Lock(Lock { transaction_id: 4002, key: s("l") }))));
    lines.push((1, Line::Msg(CM::ReleaseLock(Lock { transaction_id: 4003, key: s("l") }))));
    SessionScenario {
        property: "C17".into(),
        clients: vec![0, 1],
        lines,
        candidates: crate::model::Flags::candidates(&c17_switches(known)),
        check_all: true,
        witness: Some(1),
        witness_script: witness_script(),
        dedup: false,
        tolerated: c17_tolerated(),
    }
}

/// C17, key shapes: every request kind that takes a key, a pattern or a parent crossed with keys at
/// the edges of every special case the server has (each length of the `$SYS/clients/<id>/…` guard
/// for the own and another client, empty segments, wildcards in every position, keys that are
/// prefixes of each other). One odd input per shortcut in the code.
pub fn c17_keys(known: &Known) -> SessionScenario {
    let own = cid(0).to_string();
    let other = cid(1).to_string();
    let keys: Vec<String> = vec![
        s("$SYS"),
        s("$SYS/"),
        s("$SYS/clients"),
        format!("$SYS/clients/{own}"),
        format!("$SYS/clients/{other}"),
        format!("$SYS/clients/{own}/"),
        format!("$SYS/clients/{own}/graveGoods"),
        format!("$SYS/clients/{own}/graveGoods/x"),
        format!("$SYS/clients/{own}/lastWill"),
        format!("$SYS/clients/{own}/x"),
        format!("$SYS/clients/{own}/?"),
        format!("$SYS/clients/{own}/#"),
        s("$SYS/clients/?"),
        s("$SYS/#"),
        format!("$SYS/clients/{}/clientName", cid(0).simple()),
        format!("$SYS/clients/{{{own}}}/graveGoods"),
        s(""),
        s("/"),
        s("a//"),
        s("/a"),
        s("?"),
        s("#"),
        s("#/a"),
        s("a/#/b"),
        s("?/?"),
        s("a"),
        s("a/b"),
        s("a/b/c"),
    ];
    let mut lines: Vec<(usize, Line)> = vec![];
    let mut t = 10_000u64;
    for k in &keys {
        let mut next = || {
            t += 1;
            t
        };
        for m in [
            CM::Get(Get { transaction_id: next(), key: k.clone() }),
            CM::CGet(Get { transaction_id: next(), key: k.clone() }),
            CM::PGet(PGet { transaction_id: next(), request_pattern: k.clone() }),
            CM::Set(Set { transaction_id: next(), key: k.clone(), value: json!(["x"]) }),
            CM::CSet(CSet { transaction_id: next(), key: k.clone(), value: json!(["x"]), version: 0 }),
            CM::Publish(Publish { transaction_id: next(), key: k.clone(), value: json!(1) }),
            CM::SPubInit(SPubInit { transaction_id: next(), key: k.clone() }),
            CM::Delete(Delete { transaction_id: next(), key: k.clone() }),
            CM::PDelete(PDelete { transaction_id: next(), request_pattern: k.clone(), quiet: None }),
            CM::Ls(Ls { transaction_id: next(), parent: Some(k.clone()) }),
            CM::PLs(PLs { transaction_id: next(), parent_pattern: Some(k.clone()) }),
            CM::Subscribe(Subscribe { transaction_id: next(), key: k.clone(), unique: false, live_only: None }),
            CM::PSubscribe(PSubscribe { transaction_id: next(), request_pattern: k.clone(), unique: false, aggregate_events: None, live_only: None }),
            CM::SubscribeLs(SubscribeLs { transaction_id: next(), parent: Some(k.clone()) }),
            CM::Lock(Lock { transaction_id: next(), key: k.clone() }),
            CM::AcquireLock(Lock { transaction_id: next(), key: k.clone() }),
            CM::ReleaseLock(Lock { transaction_id: next(), key: k.clone() }),
        ] {
            lines.push((0, Line::Msg(m)));
        }
    }
    lines.push((1, Line::Msg(CM::Set(Set { transaction_id: 4001, key: s("a/b"), value: json!("witness") }))));
    SessionScenario {
        property: "C17".into(),
        clients: vec![0, 1],
        lines,
        candidates: crate::model::Flags::candidates(&c17_switches(known)),
        check_all: true,
        witness: Some(1),
        witness_script: witness_script(),
        dedup: false,
        tolerated: c17_tolerated(),
    }
}

/// C13, lock queue: three sessions lock, queue for (twice, with different transaction ids) and
/// release one key, pipelined in every order: every acquireLock must get its one answer exactly when
/// its client becomes the holder (or the request is cancelled), also when a client waits twice.
pub fn c13_locks(known: &Known) -> SessionScenario {
    let mut lines = vec![];
    for sess in 0..3usize {
        let base = 100 * (sess as u64 + 1);
        for m in [
            CM::Lock(Lock { transaction_id: base + 1, key: s("l") }),
            CM::AcquireLock(Lock { transaction_id: base + 2, key: s("l") }),
            CM::AcquireLock(Lock { transaction_id: base + 3, key: s("l") }),
            CM::ReleaseLock(Lock { transaction_id: base + 4, key: s("l") }),
        ] {
            lines.push((sess, Line::Msg(m)));
        }
    }
    // a key nested below the contended one: its lock and its queue live in the same tree
    lines.push((1, Line::Msg(CM::Lock(Lock { transaction_id: 251, key: s("l/x") }))));
    lines.push((1, Line::Msg(CM::ReleaseLock(Lock { transaction_id: 252, key: s("l/x") }))));
    lines.push((2, Line::Msg(CM::AcquireLock(Lock { transaction_id: 351, key: s("l/x") }))));
    SessionScenario {
        property: "C13".into(),
        clients: vec![0, 1, 2],
        lines,
        candidates: crate::model::Flags::candidates(&known.open_for("C13")),
        check_all: true,
        witness: None,
        witness_script: vec![],
        dedup: true,
        tolerated: Default::default(),
    }
}
