//! JSON persistence: C09 (what was flushed is what is loaded) and C10 (crash during persistence).
//!
//! C10 runs the flush history in a child process (`wbmc-core persist-child ...`) under the
//! `crashfs` LD_PRELOAD shim, which kills the child immediately before the n-th mutating
//! file-system call; the parent then runs the real `load()` on the directory that is left.

use crate::{model::*, ops::*, real::*};
use mc::{Evidence, Report, util::{hash_str, par_map}};
use serde_json::{Map, Value, json};
use sha2::{Digest, Sha256};
use std::{
    collections::{BTreeMap, BTreeSet},
    path::{Path as FsPath, PathBuf},
    process::Command,
};
use worterbuch::{Config, verif::Worterbuch};
use worterbuch_common::Protocol;

pub fn scratch_root() -> PathBuf {
    // scratch data lives on tmpfs when there is one (fsync-heavy redb commits, thousands of small
    // directories); nothing in it outlives the run
    let base = std::env::var("VERIF_SCRATCH").unwrap_or_else(|_| {
        if std::path::Path::new("/dev/shm").is_dir() { "/dev/shm".to_owned() } else { "/tmp".to_owned() }
    });
    let p = PathBuf::from(base).join(format!("wbmc-{}", std::process::id()));
    std::fs::create_dir_all(&p).expect("MACHINERY: scratch dir");
    p
}

pub fn fresh_dir(root: &FsPath, name: &str) -> PathBuf {
    let p = root.join(name);
    if p.exists() {
        std::fs::remove_dir_all(&p).ok();
    }
    std::fs::create_dir_all(&p).expect("MACHINERY: mkdir");
    p
}

pub fn copy_dir(from: &FsPath, to: &FsPath) {
    if to.exists() {
        std::fs::remove_dir_all(to).ok();
    }
    std::fs::create_dir_all(to).expect("MACHINERY: mkdir");
    if let Ok(rd) = std::fs::read_dir(from) {
        for e in rd.flatten() {
            if e.path().is_file() {
                std::fs::copy(e.path(), to.join(e.file_name())).ok();
            }
        }
    }
}

pub fn config_for(dir: &FsPath) -> Config {
    let mut cfg = base_config();
    cfg.data_dir = dir.to_string_lossy().to_string();
    cfg.use_persistence = true;
    cfg
}

/// Canonical content of a core: every key with value, kind and version (including `$SYS`).
pub fn content_of(wb: &Worterbuch) -> BTreeMap<String, Value> {
    let mut out = BTreeMap::new();
    if let Ok(kvs) = wb.pget("#") {
        for kv in kvs {
            // which kind? the snapshot hook tells plain from CAS
            out.insert(kv.key, Value::Null);
        }
    }
    let snap = worterbuch::verif::snapshot(wb);
    fn walk(node: &Value, path: &mut Vec<String>, out: &mut BTreeMap<String, Value>) {
        if let Some(v) = node.get("v") {
            out.insert(path.join("/"), v.clone());
        }
        if let Some(t) = node.get("t").and_then(|t| t.as_object()) {
            for (k, c) in t {
                path.push(k.clone());
                walk(c, path, out);
                path.pop();
            }
        }
    }
    let mut from_snapshot = BTreeMap::new();
    walk(&snap["store"]["data"], &mut vec![], &mut from_snapshot);
    // both views must name the same keys (pget # is what a client sees)
    let seen: BTreeSet<&String> = out.keys().collect();
    let stored: BTreeSet<&String> = from_snapshot.keys().collect();
    if seen != stored {
        from_snapshot.insert("<pget-#-disagrees-with-stored-tree>".into(), json!([seen, stored]));
    }
    from_snapshot
}

fn user_part(c: &BTreeMap<String, Value>) -> BTreeMap<String, Value> {
    c.iter()
        .filter(|(k, _)| *k != "$SYS" && !k.starts_with("$SYS/"))
        .map(|(k, v)| (k.clone(), v.clone()))
        .collect()
}

/// What a restart must produce from a flushed content with the given registrations: grave goods
/// buried (documented relation, or with `P/#` matching `P` when `hash_parent`), then last wills set
/// as plain values.
fn apply_registrations(
    content: &BTreeMap<String, Value>,
    gg: &[String],
    lw: &[(String, Value)],
    hash_parent: bool,
) -> BTreeMap<String, Value> {
    let mut out = user_part(content);
    for g in gg {
        let p = parse_pattern(g);
        if has_inner_multi(&p) {
            continue;
        }
        out.retain(|k, _| !matches(&p, &split(k), hash_parent));
    }
    for (k, v) in lw {
        if k == "$SYS" || k.starts_with("$SYS/") {
            continue;
        }
        if parse_key(k).is_ok() && !k.is_empty() {
            out.insert(k.clone(), json!({ "p": v }));
        }
    }
    out
}

// ====================================================================================== C09

#[derive(Clone, Debug)]
struct Reg {
    gg: Vec<(C, Value)>,
    lw: Vec<(C, Value)>,
}

fn registration_sets() -> Vec<Reg> {
    vec![
        Reg { gg: vec![], lw: vec![] },
        Reg { gg: vec![(0, json!(["a"]))], lw: vec![(0, json!([{"key": "t", "value": "lw"}]))] },
        Reg {
            gg: vec![(0, json!(["a/?", "v"])), (1, json!(["a/b", "zzz"]))],
            lw: vec![(1, json!([{"key": "lw/1", "value": {"Cas": [1, 2]}}, {"key": "a/b", "value": null}]))],
        },
        // a last will aimed at a protected key: refused when the session ends at run time
        Reg { gg: vec![], lw: vec![(0, json!([{"key": "$SYS/evil", "value": 1}, {"key": "t", "value": 2}]))] },
        // a last will that names one key twice: applied entry by entry, the later entry wins
        Reg { gg: vec![], lw: vec![(0, json!([{"key": "t", "value": "first"}, {"key": "t", "value": "second"}, {"key": "a", "value": 3}]))] },
        // entries that cannot be applied (a misplaced `#`, an empty pattern, a wildcard in a last-will
        // key) in front of entries that can: each entry stands for itself
        Reg {
            gg: vec![(0, json!(["x/#/y", "", "a"])), (1, json!(["v"]))],
            lw: vec![(0, json!([{"key": "w/?", "value": 1}, {"key": "t", "value": "lw"}]))],
        },
        // one client has cleared its registrations (null) next to one that holds some
        Reg {
            gg: vec![(0, json!(["a", "v"])), (1, Value::Null)],
            lw: vec![(0, json!([{"key": "t", "value": "lw"}])), (1, Value::Null)],
        },
    ]
}

fn values() -> Vec<Value> {
    vec![
        json!(1),
        Value::Null,
        json!("x\ny"),
        json!(1e308),
        json!([]),
        json!({"Cas": [1, 2]}),
        json!({"v": 1}),
        json!({"t": {}}),
        json!({"Cas": 1}),
        json!([1, 2]),
    ]
}

/// (the last three: a first segment that merely starts with `$SYS`, and `$SYS` further down - user
/// keys like any other, next to the `$SYS` subtree that export strips)
const C09_KEYS: &[&str] = &["a", "a/b", "a//b", "ä/β", "t", "v", "$SYSx", "$SYSx/y", "a/$SYS/b"];

#[derive(Clone, Debug)]
struct Case {
    entries: Vec<(String, Value, Option<u64>)>,
    reg: usize,
    layout: u8,    // 3, 2, 1
    flushes: usize, // 1 = .toggle present, 2 = absent
}

fn import_doc(entries: &[(String, Value, Option<u64>)]) -> String {
    #[derive(Default)]
    struct N {
        v: Option<Value>,
        t: BTreeMap<String, N>,
    }
    fn to_json(n: &N) -> Value {
        let mut m = Map::new();
        if let Some(v) = &n.v {
            m.insert("v".into(), v.clone());
        }
        if !n.t.is_empty() {
            let mut t = Map::new();
            for (k, c) in &n.t {
                t.insert(k.clone(), to_json(c));
            }
            m.insert("t".into(), Value::Object(t));
        }
        Value::Object(m)
    }
    let mut root = N::default();
    for (k, v, ver) in entries {
        let mut cur = &mut root;
        for s in k.split('/') {
            cur = cur.t.entry(s.to_owned()).or_default();
        }
        cur.v = Some(match ver {
            Some(n) => json!({"Cas": [v, n]}),
            None => v.clone(),
        });
    }
    json!({ "data": to_json(&root) }).to_string()
}

fn sha_hex(data: &[u8]) -> String {
    let mut h = Sha256::new();
    h.update(data);
    hex::encode(h.finalize())
}

/// Re-lay a v3 directory out as the v2 or v1 schema.
fn relayout(dir: &FsPath, layout: u8) {
    let rd: Vec<PathBuf> = std::fs::read_dir(dir).map(|r| r.flatten().map(|e| e.path()).collect()).unwrap_or_default();
    let toggle = dir.join(".toggle").exists();
    let slot = if toggle { "a" } else { "b" };
    match layout {
        3 => {}
        2 => {
            for p in rd {
                let name = p.file_name().unwrap_or_default().to_string_lossy().to_string();
                if name.ends_with(".sha256") {
                    std::fs::remove_file(&p).ok();
                } else if name.starts_with("store.") || name.starts_with("gglw.") {
                    std::fs::rename(&p, dir.join(format!(".{name}"))).ok();
                }
            }
        }
        1 => {
            let data = std::fs::read(dir.join(format!("store.{slot}.json"))).unwrap_or_default();
            for p in rd {
                let name = p.file_name().unwrap_or_default().to_string_lossy().to_string();
                if name != "last-persisted" {
                    std::fs::remove_file(&p).ok();
                }
            }
            std::fs::write(dir.join(".store.json"), &data).ok();
            std::fs::write(dir.join(".store.sha"), sha_hex(&data)).ok();
        }
        _ => unreachable!(),
    }
}

async fn c09_case(case: &Case, dir: &FsPath) -> Result<Vec<&'static str>, String> {
    let cfg = config_for(dir);
    let regs = registration_sets();
    let reg = &regs[case.reg];
    let mut wb = Worterbuch::with_config(cfg.clone());
    // content through the real API
    let plain: Vec<_> = case.entries.iter().filter(|e| e.2.is_none()).collect();
    for (k, v, _) in &plain {
        wb.set(k.clone(), v.clone(), cid(INTERNAL), false).await.map_err(|e| format!("MACHINERY: set: {e}"))?;
    }
    let cas: Vec<_> = case.entries.iter().filter(|e| e.2.is_some()).cloned().collect();
    if !cas.is_empty() {
        wb.import(&import_doc(&cas)).await.map_err(|e| format!("MACHINERY: import: {e}"))?;
    }
    // $SYS noise that must not survive
    wb.set("$SYS/noise".into(), json!(1), cid(INTERNAL), false).await.ok();
    let mut clients = BTreeSet::new();
    for (c, _) in reg.gg.iter().chain(reg.lw.iter()) {
        if clients.insert(*c) {
            wb.connected(cid(*c), None, &Protocol::TCP).await.ok();
        }
    }
    for (c, g) in &reg.gg {
        wb.set(format!("$SYS/clients/{}/graveGoods", cid(*c)), g.clone(), cid(*c), false)
            .await
            .map_err(|e| format!("MACHINERY: gg: {e}"))?;
    }
    for (c, w) in &reg.lw {
        wb.set(format!("$SYS/clients/{}/lastWill", cid(*c)), w.clone(), cid(*c), false)
            .await
            .map_err(|e| format!("MACHINERY: lw: {e}"))?;
    }
    let before = content_of(&wb);
    for _ in 0..case.flushes {
        worterbuch::verif::json::synchronous(&mut wb, &cfg).await.map_err(|e| format!("flush failed: {e}"))?;
    }
    relayout(dir, case.layout);
    let loaded = worterbuch::verif::json::load(&cfg).await.map_err(|e| format!("load failed: {e}"))?;
    let after = content_of(&loaded);
    // reference
    let mut gg: Vec<String> = vec![];
    let mut lw: Vec<(String, Value)> = vec![];
    if case.layout != 1 {
        // order of registrations of different clients is not fixed (hash order): the sets used
        // here give the same result in any order
        for (_, g) in &reg.gg {
            gg.extend(serde_json::from_value::<Vec<String>>(g.clone()).unwrap_or_default());
        }
        for (_, w) in &reg.lw {
            lw.extend(parse_last_will(w).unwrap_or_default());
        }
    }
    let mut after = after;
    let sys: Vec<String> = after.keys().filter(|k| *k == "$SYS" || k.starts_with("$SYS/")).cloned().collect();
    let mut pre: Vec<&'static str> = vec![];
    if !sys.is_empty() {
        // known shape: a persisted last will that names a $SYS key is applied by the server's own
        // client during load
        let from_lw = sys.iter().all(|k| lw.iter().any(|(lk, lv)| lk == k && after.get(k) == Some(&json!({ "p": lv }))));
        if !from_lw {
            return Err(format!("the reloaded instance contains keys under $SYS: {sys:?}"));
        }
        for k in &sys {
            after.remove(k);
        }
        pre.push("last_will_into_sys_on_load");
    }
    let want = apply_registrations(&before, &gg, &lw, false);
    if want == after {
        return Ok(pre);
    }
    // known deviations, tried in every combination (fewest first)
    let tag_collision = |m: &BTreeMap<String, Value>| -> BTreeMap<String, Value> {
        m.iter()
            .map(|(k, v)| {
                let mut v = v.clone();
                if let Some(p) = v.get("p") {
                    if let Entry::Cas(x, n) = parse_entry(p) {
                        v = json!({ "c": [x, n] });
                    }
                }
                (k.clone(), v)
            })
            .collect()
    };
    let null_lost = |m: &BTreeMap<String, Value>| -> BTreeMap<String, Value> {
        m.iter().filter(|(_, v)| v.get("p") != Some(&Value::Null)).map(|(k, v)| (k.clone(), v.clone())).collect()
    };
    let sigs = [SIG_HASH_PARENT, "cas_tag_collision", "null_value_lost", "v2_registrations_not_applied"];
    let mut masks: Vec<u32> = (1..16).collect();
    masks.sort_by_key(|m| m.count_ones());
    for m in masks {
        if m & 8 != 0 && case.layout != 2 {
            continue;
        }
        // the null/tag deviations act on the flushed content (before registrations are applied)
        let mut base = before.clone();
        if m & 4 != 0 {
            base = null_lost(&base);
        }
        if m & 2 != 0 {
            base = tag_collision(&base);
        }
        let (g, w): (&[String], &[(String, Value)]) = if m & 8 != 0 { (&[], &[]) } else { (&gg, &lw) };
        let cand = apply_registrations(&base, g, w, m & 1 != 0);
        if cand == after {
            let mut out = pre.clone();
            out.extend(sigs.iter().enumerate().filter(|(i, _)| m & (1 << i) != 0).map(|(_, s)| *s));
            return Ok(out);
        }
    }
    let mut diff = vec![];
    for k in want.keys().chain(after.keys()).collect::<BTreeSet<_>>() {
        if want.get(k) != after.get(k) {
            diff.push(format!("{k}: flushed/expected={:?} loaded={:?}", want.get(k), after.get(k)));
        }
    }
    diff.truncate(4);
    Err(diff.join("; "))
}

pub fn run_c09(tier: &str) -> i32 {
    worterbuch::verif::unlock_persistence();
    let mut ev = Evidence::new("C09", tier, "exploration");
    let mut rep = Report::new("C09");
    let root = scratch_root();
    let vals = values();
    let kinds: Vec<Option<u64>> = vec![None, Some(1), Some(2), Some((1u64 << 53) + 1), Some(u64::MAX)];
    let mut cases: Vec<Case> = vec![];
    let nregs = registration_sets().len();
    let mut push = |entries: Vec<(String, Value, Option<u64>)>, cases: &mut Vec<Case>, all_layouts: bool| {
        for reg in 0..nregs {
            for layout in [3u8, 2, 1] {
                for flushes in [1usize, 2] {
                    if !all_layouts && !(layout == 3 && flushes == 1) && reg != 1 {
                        continue;
                    }
                    cases.push(Case { entries: entries.clone(), reg, layout, flushes });
                }
            }
        }
    };
    // all single entries
    for k in C09_KEYS {
        for v in &vals {
            for kind in &kinds {
                push(vec![(k.to_string(), v.clone(), *kind)], &mut cases, true);
            }
        }
    }
    // pairs / triples over a reduced value set
    let small_vals = [json!(1), json!({"Cas": [1, 2]}), Value::Null];
    let small_kinds = [None, Some(2u64)];
    let key_sets: Vec<Vec<&str>> = if tier == "thorough" {
        let mut v = vec![];
        for i in 0..C09_KEYS.len() {
            for j in i + 1..C09_KEYS.len() {
                v.push(vec![C09_KEYS[i], C09_KEYS[j]]);
                for l in j + 1..C09_KEYS.len().min(6) {
                    v.push(vec![C09_KEYS[i], C09_KEYS[j], C09_KEYS[l]]);
                }
            }
        }
        v
    } else {
        vec![vec!["a", "a/b"], vec!["a", "t"], vec!["a/b", "a//b", "v"], vec!["ä/β", "t", "v"], vec!["$SYSx/y", "a/$SYS/b"]]
    };
    for ks in &key_sets {
        let n = ks.len();
        let per = small_vals.len() * small_kinds.len();
        for combo in 0..per.pow(n as u32) {
            let mut entries = vec![];
            let mut c = combo;
            for k in ks {
                let v = &small_vals[(c % per) % small_vals.len()];
                let kind = small_kinds[(c % per) / small_vals.len()];
                c /= per;
                entries.push((k.to_string(), v.clone(), kind));
            }
            push(entries, &mut cases, tier == "thorough");
        }
    }
    let results = par_map(&cases, |i, case| {
        let dir = fresh_dir(&root, &format!("c09-{i}"));
        let r = mc::util::catch(|| block_on(c09_case(case, &dir)));
        std::fs::remove_dir_all(&dir).ok();
        r
    });
    let mut nontrivial = BTreeSet::new();
    for (case, r) in cases.iter().zip(results) {
        let replay = json!({"entries": case.entries, "registration_set": case.reg, "layout": format!("v{}", case.layout), "flushes_before_load": case.flushes});
        nontrivial.insert(format!("{:?}|{}|{}|{}", case.entries.iter().map(|e| (e.1.to_string(), e.2)).collect::<Vec<_>>(), case.reg, case.layout, case.flushes));
        match r {
            Err(p) => {
                // a lost null leaves a value-less leaf in the loaded tree; the next pdelete (burying
                // grave goods during load) then trips the developers' is_clean assertion
                let has_null = case.entries.iter().any(|e| e.1.is_null() && e.2.is_none());
                if has_null && p.contains("is_clean") {
                    rep.known_or_violation("null_value_lost", format!("load panics ({p}) after a stored null was read back as 'no value': {replay}"), replay);
                } else {
                    rep.violation(format!("panic: {p}"), replay);
                }
            }
            Ok(Err(e)) if e.starts_with("MACHINERY") => rep.machinery(format!("{e} ({replay})")),
            Ok(Err(e)) => rep.violation(e, replay),
            Ok(Ok(sigs)) => {
                for sig in sigs {
                    rep.known_or_violation(sig, format!("round trip deviates as the finding says: {replay}"), replay.clone());
                }
            }
        }
    }
    std::fs::remove_dir_all(&root).ok();
    ev.set("evaluations", json!(cases.len()));
    ev.set("distinct_nontrivial", json!(nontrivial.len()));
    ev.set("exhaustive", json!(true));
    ev.set("rule", json!("store contents (every single entry over 9 key shapes (incl. a first segment that only starts with $SYS and $SYS as a later segment) x 10 JSON values x {plain, CAS at version 1, 2, 2^53+1, u64::MAX}; pairs and triples over a reduced value set) x 7 registration sets x on-disk layouts v3/v2/v1 x toggle present/absent; built through the real API, flushed with the real synchronous(), loaded through the real load() fall-back chain; distinct = distinct (values+kinds, registration set, layout, toggle state); all are non-trivial (every case stores at least one value)"));
    ev.push_sample(json!({"entries": [["a", {"Cas": [1, 2]}, null]], "registration_set": 1, "layout": "v2", "flushes_before_load": 2}));
    ev.push_sample(json!({"entries": [["ä/β", 1e308, u64::MAX]], "registration_set": 0, "layout": "v3", "flushes_before_load": 1}));
    ev.assume("the reference takes the content at the flush from the instance itself (pget # cross-checked with the stored tree) and applies grave goods / last wills with the documented relation");
    ev.assume("the v1 layout has no registration file, so nothing is applied for it");
    rep.finish(&mut ev)
}

// ====================================================================================== C10

/// The child: `wbmc-core persist-child <dir> <side-file> <script>`; script = comma separated
/// steps: `boot` (start-up with the periodic flush's tick landing before the load has finished: load,
/// then that flush of the loaded state), `load`, `s<i>` (bring the store into state i), `r<i>` (the same with the CAS entry starting
/// over: the store becomes byte for byte what state i was in a fresh history), `flush`, `pflush`.
pub fn child_main(args: &[String]) -> i32 {
    let dir = PathBuf::from(&args[0]);
    let side = PathBuf::from(&args[1]);
    let script: Vec<&str> = args[2].split(',').collect();
    let cfg = config_for(&dir);
    worterbuch::verif::unlock_persistence();
    block_on(async {
        let mut wb = Worterbuch::with_config(cfg.clone());
        let mut flush_no = 0usize;
        let note = |v: Value| {
            use std::io::Write;
            let mut f = std::fs::OpenOptions::new().create(true).append(true).open(&side).expect("side file");
            writeln!(f, "{v}").ok();
        };
        for step in script {
            if step == "boot" {
                flush_no += 1;
                let n = flush_no;
                wb = boot_flush(&cfg, &|w: &Worterbuch| {
                    let content = user_part(&content_of(w));
                    note(json!({"loaded": content}));
                    note(json!({"flush": n, "phase": "begin", "expected": content}));
                })
                .await;
                note(json!({"flush": flush_no, "phase": "end"}));
            } else if step == "load" {
                wb = match worterbuch::verif::json::load(&cfg).await {
                    Ok(w) => w,
                    Err(_) => Worterbuch::with_config(cfg.clone()),
                };
                note(json!({"loaded": user_part(&content_of(&wb))}));
            } else if step == "flush" || step == "pflush" {
                flush_no += 1;
                let content = content_of(&wb);
                let reg_gg: Vec<String> = content
                    .iter()
                    .filter(|(k, _)| k.starts_with("$SYS/clients/") && k.ends_with("/graveGoods"))
                    .flat_map(|(_, v)| serde_json::from_value::<Vec<String>>(v["p"].clone()).unwrap_or_default())
                    .collect();
                let reg_lw: Vec<(String, Value)> = content
                    .iter()
                    .filter(|(k, _)| k.starts_with("$SYS/clients/") && k.ends_with("/lastWill"))
                    .flat_map(|(_, v)| parse_last_will(&v["p"]).unwrap_or_default())
                    .collect();
                let expected = apply_registrations(&content, &reg_gg, &reg_lw, false);
                note(json!({"flush": flush_no, "phase": "begin", "expected": expected}));
                if step == "flush" {
                    worterbuch::verif::json::synchronous(&mut wb, &cfg).await.expect("flush");
                } else {
                    wb = periodic_flush(wb, &cfg).await;
                }
                note(json!({"flush": flush_no, "phase": "end"}));
            } else if let Some(i) = step.strip_prefix("pp") {
                // two ticks of one periodic task; only the registrations change in between
                let i: i64 = i.parse().expect("state index");
                let content = content_of(&wb);
                let regs = |content: &BTreeMap<String, Value>| {
                    let gg: Vec<String> = content
                        .iter()
                        .filter(|(k, _)| k.starts_with("$SYS/clients/") && k.ends_with("/graveGoods"))
                        .flat_map(|(_, v)| serde_json::from_value::<Vec<String>>(v["p"].clone()).unwrap_or_default())
                        .collect();
                    let lw: Vec<(String, Value)> = content
                        .iter()
                        .filter(|(k, _)| k.starts_with("$SYS/clients/") && k.ends_with("/lastWill"))
                        .flat_map(|(_, v)| parse_last_will(&v["p"]).unwrap_or_default())
                        .collect();
                    (gg, lw)
                };
                let (gg1, lw1) = regs(&content);
                let expected1 = apply_registrations(&content, &gg1, &lw1, false);
                let expected2 = apply_registrations(&content, &[format!("gone/{i}")], &[("lw".to_owned(), json!(i))], false);
                let (n1, n2) = (flush_no + 1, flush_no + 2);
                flush_no += 2;
                note(json!({"flush": n1, "phase": "begin", "expected": expected1}));
                wb = periodic_flush_twice(wb, &cfg, i, &|| {
                    note(json!({"flush": n1, "phase": "end"}));
                    note(json!({"flush": n2, "phase": "begin", "expected": expected2}));
                })
                .await;
                note(json!({"flush": n2, "phase": "end"}));
            } else if let Some(i) = step.strip_prefix('s').or_else(|| step.strip_prefix('r')) {
                let i: i64 = i.parse().expect("state index");
                if step.starts_with('r') {
                    // "back to state i": the CAS entry starts over, so that the store is exactly what
                    // it was when state i was reached from an empty store
                    wb.delete("cas".into(), cid(INTERNAL)).await.ok();
                }
                let r = cid(7);
                wb.connected(r, None, &Protocol::TCP).await.ok();
                wb.set("k".into(), json!(i), cid(INTERNAL), false).await.expect("set");
                wb.pdelete("only/?".into(), cid(INTERNAL)).await.ok();
                wb.set(format!("only/{i}"), json!(i), cid(INTERNAL), false).await.expect("set");
                for j in 1..=8 {
                    wb.set(format!("gone/{j}"), json!("x"), cid(INTERNAL), true).await.expect("set");
                }
                wb.delete("lw".into(), cid(INTERNAL)).await.ok();
                let ver = wb.cget(&"cas".to_string()).map(|(_, v)| v).unwrap_or(0);
                wb.cset("cas".into(), json!(i), ver, cid(INTERNAL), false).await.expect("cset");
                wb.set(format!("$SYS/clients/{r}/graveGoods"), json!([format!("gone/{i}")]), r, false).await.expect("gg");
                wb.set(format!("$SYS/clients/{r}/lastWill"), json!([{"key": "lw", "value": i}]), r, false).await.expect("lw");
            }
        }
    });
    0
}

/// One tick of the real periodic flush task (`json::periodic`: export through the API, then
/// write), with the core owned by a task that serves the API meanwhile.
async fn periodic_flush(wb: Worterbuch, cfg: &Config) -> Worterbuch {
    periodic_flush_impl(Some(wb), cfg, &|_| {}, None).await
}

/// Two consecutive ticks of ONE run of the periodic task (whatever it remembers between ticks stays):
/// between them only the registrations change (those of state `i`), the user keys stay as they are.
async fn periodic_flush_twice(wb: Worterbuch, cfg: &Config, i: i64, between: &dyn Fn()) -> Worterbuch {
    periodic_flush_impl(Some(wb), cfg, &|_| {}, Some((i, between))).await
}

/// The start-up order of `persistence::restore` with the timer landing first: the periodic flush
/// task exists before the store is loaded; its tick fires while the load is still outstanding, the
/// flush waits for its export until the core serves the API, i.e. until after the load.
async fn boot_flush(cfg: &Config, on_loaded: &dyn Fn(&Worterbuch)) -> Worterbuch {
    periodic_flush_impl(None, cfg, on_loaded, None).await
}

async fn periodic_flush_impl(
    wb: Option<Worterbuch>,
    cfg: &Config,
    on_loaded: &dyn Fn(&Worterbuch),
    second: Option<(i64, &dyn Fn())>,
) -> Worterbuch {
    use tokio::sync::mpsc;
    let (tx, mut rx) = mpsc::channel::<worterbuch::verif::WbFunction>(16);
    let mut pcfg = cfg.clone();
    pcfg.persistence_interval = std::time::Duration::from_secs(1);
    let api = worterbuch::server::CloneableWbApi::new(tx, pcfg.clone());
    let (stx, mut srx) = mpsc::channel::<tosub::SubsystemHandle>(1);
    tokio::spawn(async move {
        tosub::build_root("wbmc")
            .catch_no_signals()
            .no_shutdown_on_stdin_close()
            .start(move |s: tosub::SubsystemHandle| async move {
                stx.send(s.clone()).await.ok();
                s.shutdown_requested().await;
                Ok::<(), miette::Error>(())
            })
            .await
            .ok();
    });
    let subsys = loop {
        if let Ok(s) = srx.try_recv() {
            break s;
        }
        tokio::task::yield_now().await;
    };
    let periodic = tokio::spawn(worterbuch::verif::json::periodic(api.clone(), pcfg, subsys.clone()));
    for _ in 0..20 {
        tokio::task::yield_now().await;
    }
    // the tick fires; the flush asks for its export, which nobody answers yet
    tokio::time::advance(std::time::Duration::from_millis(1050)).await;
    for _ in 0..20 {
        tokio::task::yield_now().await;
    }
    let wb = match wb {
        Some(w) => w,
        None => {
            let w = match worterbuch::verif::json::load(cfg).await {
                Ok(w) => w,
                Err(_) => Worterbuch::with_config(cfg.clone()),
            };
            on_loaded(&w);
            w
        }
    };
    let toggle = std::path::PathBuf::from(&cfg.data_dir).join(".toggle");
    let before = toggle.exists();
    let exports = std::sync::Arc::new(std::sync::atomic::AtomicUsize::new(0));
    let exports2 = exports.clone();
    let core = tokio::spawn(async move {
        let mut wb = wb;
        while let Some(f) = rx.recv().await {
            if matches!(f, worterbuch::verif::WbFunction::Export(..)) {
                exports2.fetch_add(1, std::sync::atomic::Ordering::SeqCst);
            }
            worterbuch::verif::process_api_call(&mut wb, f).await;
        }
        wb
    });
    // the file operations run on the blocking pool: wait (in real time) until the slot selector
    // has flipped, which is the flush's last step before the time stamp
    let mut n = 0;
    while toggle.exists() == before && n < 20_000 {
        tokio::task::yield_now().await;
        std::thread::sleep(std::time::Duration::from_micros(200));
        n += 1;
    }
    for _ in 0..50 {
        tokio::task::yield_now().await;
        std::thread::sleep(std::time::Duration::from_micros(200));
    }
    if let Some((i, between)) = second {
        use worterbuch_common::WbApi;
        between();
        let r = cid(7);
        let after_first = toggle.exists();
        api.set(format!("$SYS/clients/{r}/graveGoods"), json!([format!("gone/{i}")]), r).await.expect("MACHINERY: gg");
        api.set(format!("$SYS/clients/{r}/lastWill"), json!([{"key": "lw", "value": i}]), r).await.expect("MACHINERY: lw");
        let served = exports.load(std::sync::atomic::Ordering::SeqCst);
        tokio::time::advance(std::time::Duration::from_millis(1050)).await;
        // the second tick is over when the selector has flipped again - or, for a flush that decides
        // to write nothing, when its export was served and nothing happened for 3 s
        let mut n = 0;
        let mut idle_since: Option<std::time::Instant> = None;
        while toggle.exists() == after_first && n < 40_000 {
            tokio::task::yield_now().await;
            std::thread::sleep(std::time::Duration::from_micros(200));
            n += 1;
            if exports.load(std::sync::atomic::Ordering::SeqCst) > served {
                let t = *idle_since.get_or_insert_with(std::time::Instant::now);
                if t.elapsed() > std::time::Duration::from_secs(3) {
                    break;
                }
            }
        }
        for _ in 0..50 {
            tokio::task::yield_now().await;
            std::thread::sleep(std::time::Duration::from_micros(200));
        }
    }
    subsys.request_global_shutdown();
    drop(api);
    for _ in 0..50 {
        tokio::task::yield_now().await;
    }
    periodic.abort();
    match core.await {
        Ok(wb) => wb,
        Err(_) => panic!("MACHINERY: core task of the periodic flush failed"),
    }
}

#[derive(Debug, Clone)]
struct ChildOutcome {
    exit: i32,
    /// expected recovered state of the last completed flush (None: none completed in this run)
    completed: Option<Value>,
    in_progress: Option<Value>,
    loaded: Option<Value>,
}

fn run_child(exe: &FsPath, shim: &FsPath, dir: &FsPath, side: &FsPath, script: &str, at: usize, torn: Option<u32>, log: Option<&FsPath>) -> ChildOutcome {
    std::fs::remove_file(side).ok();
    let mut cmd = Command::new(exe);
    cmd.env_clear()
        .env("PATH", std::env::var("PATH").unwrap_or_default())
        .env("LD_PRELOAD", shim)
        .env("CRASHFS_DIR", dir)
        .env("CRASHFS_AT", at.to_string())
        .arg("persist-child")
        .arg(dir)
        .arg(side)
        .arg(script);
    if let Some(t) = torn {
        cmd.env("CRASHFS_TORN", t.to_string());
    }
    if let Some(l) = log {
        cmd.env("CRASHFS_LOG", l);
    }
    let out = cmd.output().expect("MACHINERY: spawn child");
    let exit = out.status.code().unwrap_or(-1);
    let mut o = ChildOutcome { exit, completed: None, in_progress: None, loaded: None };
    let text = std::fs::read_to_string(side).unwrap_or_default();
    let mut begun: BTreeMap<u64, Value> = BTreeMap::new();
    for line in text.lines() {
        let Ok(v) = serde_json::from_str::<Value>(line) else { continue };
        if let Some(l) = v.get("loaded") {
            o.loaded = Some(l.clone());
        }
        if let Some(n) = v.get("flush").and_then(|n| n.as_u64()) {
            if v["phase"] == "begin" {
                begun.insert(n, v["expected"].clone());
                o.in_progress = Some(v["expected"].clone());
            } else {
                o.completed = begun.get(&n).cloned();
                o.in_progress = None;
            }
        }
    }
    if exit != 0 && exit != 137 {
        o.exit = -1000 - exit;
        eprintln!("child stderr: {}", String::from_utf8_lossy(&out.stderr).chars().take(400).collect::<String>());
    }
    o
}

fn dir_fingerprint(dir: &FsPath) -> String {
    let mut items = vec![];
    if let Ok(rd) = std::fs::read_dir(dir) {
        for e in rd.flatten() {
            let name = e.file_name().to_string_lossy().to_string();
            if name == "last-persisted" {
                continue;
            }
            let data = std::fs::read(e.path()).unwrap_or_default();
            items.push(format!("{name}:{:016x}", hash_str(&String::from_utf8_lossy(&data))));
        }
    }
    items.sort();
    items.join(",")
}

/// Run the real `load()` on a copy of the directory and return the recovered user content.
fn recover(dir: &FsPath, scratch: &FsPath) -> Result<Value, String> {
    copy_dir(dir, scratch);
    let cfg = config_for(scratch);
    let r = mc::util::catch(|| {
        block_on(async {
            match worterbuch::verif::json::load(&cfg).await {
                Ok(wb) => json!(user_part(&content_of(&wb))),
                Err(_) => json!({}),
            }
        })
    });
    std::fs::remove_dir_all(scratch).ok();
    r.map_err(|p| format!("load panicked: {p}"))
}

pub fn run_c10(tier: &str) -> i32 {
    worterbuch::verif::unlock_persistence();
    let mut ev = Evidence::new("C10", tier, "fault_enumeration");
    let mut rep = Report::new("C10");
    let root = scratch_root();
    let exe = std::env::current_exe().expect("exe");
    let shim = PathBuf::from(std::env::var("VERIF_DIR").unwrap_or_else(|_| "/verif".into())).join("target/crashfs.so");
    if !shim.exists() {
        rep.machinery(format!("{} missing (run ./setup.sh)", shim.display()));
        return rep.finish(&mut ev);
    }
    let flushes = if tier == "thorough" { 4 } else { 3 };
    // alternate the shutdown/follower variant and the periodic variant (export through the API)
    // synchronous flush, then two ticks of one periodic task between which only the registrations
    // change (`pp9`), then (thorough) another synchronous flush: 3 / 4 flushes
    let script1: String = if flushes == 3 { "s1,flush,s2,pp9".to_owned() } else { "s1,flush,s2,pp9,s3,flush".to_owned() };
    // dry run: number of crash points and the call log
    let dry_dir = fresh_dir(&root, "dry");
    let log = root.join("dry.log");
    let dry = run_child(&exe, &shim, &dry_dir, &root.join("dry.side"), &script1, 0, None, Some(&log));
    if dry.exit != 0 {
        rep.machinery(format!("dry run of the flush history failed (exit {})", dry.exit));
        return rep.finish(&mut ev);
    }
    let log_text = std::fs::read_to_string(&log).unwrap_or_default();
    let calls: Vec<&str> = log_text.lines().collect();
    let n1 = calls.len();
    let final_expected = dry.completed.clone();
    // sanity: without a crash the last flush must be recovered
    match recover(&dry_dir, &root.join("dry.rec")) {
        Ok(v) if Some(&v) == final_expected.as_ref() => {}
        Ok(v) => rep.violation(
            format!("without any crash, {flushes} flushes then load recovers {v} instead of the last flush {:?}", final_expected),
            json!({"script": script1, "crash_at": 0}),
        ),
        Err(e) => rep.violation(e, json!({"script": script1, "crash_at": 0})),
    }
    // level 1: every crash index, plus torn variants of every tmp write
    #[derive(Clone, Debug)]
    struct Job {
        at: usize,
        torn: Option<u32>,
    }
    let mut jobs = vec![];
    for n in 1..=n1 {
        jobs.push(Job { at: n, torn: None });
        if calls[n - 1].contains(" write ") && calls[n - 1].ends_with(".tmp") {
            for t in [0u32, 2] {
                jobs.push(Job { at: n, torn: Some(t) });
            }
        }
    }
    let level1 = par_map(&jobs, |i, job| {
        let dir = fresh_dir(&root, &format!("l1-{i}"));
        let o = run_child(&exe, &shim, &dir, &root.join(format!("l1-{i}.side")), &script1, job.at, job.torn, None);
        let rec = recover(&dir, &root.join(format!("l1-{i}.rec")));
        let fp = dir_fingerprint(&dir);
        (o, rec, fp, dir)
    });
    let mut distinct_dirs: BTreeMap<String, (PathBuf, Vec<Value>)> = BTreeMap::new();
    let mut evaluations = 0u64;
    let mut outcomes = BTreeSet::new();
    let mut judge = |rep: &mut Report, allowed: &[Value], rec: &Result<Value, String>, replay: Value, what: &str| {
        match rec {
            Err(e) => rep.violation(format!("{what}: {e}"), replay),
            Ok(v) => {
                if !allowed.iter().any(|a| a == v) {
                    // classify against the known shapes
                    let older_or_mixed = format!(
                        "{what}: recovered {} but only {} is allowed",
                        v,
                        Value::Array(allowed.to_vec())
                    );
                    rep.known_or_violation("json_flush_toggle_first", older_or_mixed, replay);
                }
            }
        }
    };
    for (job, (o, rec, fp, dir)) in jobs.iter().zip(level1.iter()) {
        evaluations += 1;
        let replay = json!({"script": script1, "crash_at": job.at, "torn": job.torn, "call": calls[job.at - 1]});
        if o.exit != 137 {
            rep.machinery(format!("child did not crash at point {} (exit {})", job.at, o.exit));
            continue;
        }
        let mut allowed = vec![];
        allowed.push(o.completed.clone().unwrap_or_else(|| json!({})));
        if let Some(p) = &o.in_progress {
            allowed.push(p.clone());
        }
        outcomes.insert(format!("{:?}", rec.as_ref().map(|v| hash_str(&v.to_string()))));
        judge(&mut rep, &allowed, rec, replay, &format!("crash before call #{} ({})", job.at, calls[job.at - 1]));
        distinct_dirs.entry(fp.clone()).or_insert_with(|| (dir.clone(), allowed));
    }
    // level 2: from every distinct directory state: load -> mutate -> flush -> mutate -> flush,
    // crashed at every index again
    let max_l2 = usize::MAX;
    // two second runs: new states; and a return to the state that the slot written next held before
    // (a flush whose content equals what an earlier flush left in the same slot)
    let scripts2 = [
        format!("boot,s{},flush", flushes + 1),
        if tier == "thorough" {
            format!("load,r{},flush,s{},pflush", flushes - 2, flushes + 2)
        } else {
            format!("load,r{},flush", flushes - 2)
        },
    ];
    let starts: Vec<(String, PathBuf, Vec<Value>)> =
        distinct_dirs.iter().take(max_l2).map(|(k, (d, a))| (k.clone(), d.clone(), a.clone())).collect();
    let mut l2_jobs = vec![];
    let dry_jobs: Vec<(usize, usize)> = (0..starts.len()).flat_map(|si| (0..scripts2.len()).map(move |sc| (si, sc))).collect();
    let dries = par_map(&dry_jobs, |_, (si, sc)| {
        let d = fresh_dir(&root, &format!("l2dry-{si}-{sc}"));
        copy_dir(&starts[*si].1, &d);
        let log = root.join(format!("l2dry-{si}-{sc}.log"));
        let o = run_child(&exe, &shim, &d, &root.join(format!("l2dry-{si}-{sc}.side")), &scripts2[*sc], 0, None, Some(&log));
        let n2 = std::fs::read_to_string(&log).map(|t| t.lines().count()).unwrap_or(0);
        // without a further crash the second run's last flush must be what a restart finds
        let rec = recover(&d, &root.join(format!("l2dry-{si}-{sc}.rec")));
        std::fs::remove_dir_all(&d).ok();
        (o, n2, rec)
    });
    for ((si, sc), (o, n2, rec)) in dry_jobs.iter().zip(dries.iter()) {
        if o.exit != 0 {
            rep.machinery(format!("level-2 dry run failed (exit {})", o.exit));
            continue;
        }
        evaluations += 1;
        let replay = json!({"level1_dir": starts[*si].0, "script": scripts2[*sc], "crash_at": 0});
        match (rec, &o.completed) {
            (Ok(v), Some(c)) if v == c => {}
            (Ok(v), c) => rep.violation(format!("second run (after a first crash) completed; a restart recovers {v} instead of its last flush {c:?}"), replay),
            (Err(e), _) => rep.violation(format!("second run (after a first crash) completed: {e}"), replay),
        }
        for at in 1..=*n2 {
            l2_jobs.push((*si, *sc, at));
        }
    }
    let level2 = par_map(&l2_jobs, |i, (si, sc, at)| {
        let dir = fresh_dir(&root, &format!("l2-{i}"));
        copy_dir(&starts[*si].1, &dir);
        let o = run_child(&exe, &shim, &dir, &root.join(format!("l2-{i}.side")), &scripts2[*sc], *at, None, None);
        let rec = recover(&dir, &root.join(format!("l2-{i}.rec")));
        let fp = dir_fingerprint(&dir);
        std::fs::remove_dir_all(&dir).ok();
        (o, rec, fp)
    });
    let mut l2_dirs = BTreeSet::new();
    for ((si, sc, at), (o, rec, fp)) in l2_jobs.iter().zip(level2.iter()) {
        evaluations += 1;
        l2_dirs.insert(fp.clone());
        if o.exit != 137 {
            rep.machinery(format!("level-2 child did not crash at point {at} (exit {})", o.exit));
            continue;
        }
        let mut allowed: Vec<Value> = vec![];
        match &o.completed {
            Some(c) => allowed.push(c.clone()),
            None => allowed.extend(starts[*si].2.iter().cloned()),
        }
        if let Some(p) = &o.in_progress {
            allowed.push(p.clone());
        }
        outcomes.insert(format!("{:?}", rec.as_ref().map(|v| hash_str(&v.to_string()))));
        let replay = json!({"level1_dir": starts[*si].0, "script": scripts2[*sc], "crash_at": at});
        judge(&mut rep, &allowed, rec, replay, &format!("second run (after a first crash) crashed before its call #{at}"));
    }
    for (_, (d, _)) in distinct_dirs.iter() {
        std::fs::remove_dir_all(d).ok();
    }
    std::fs::remove_dir_all(&root).ok();
    ev.set("evaluations", json!(evaluations));
    ev.set("distinct_nontrivial", json!(distinct_dirs.len() + l2_dirs.len()));
    ev.set("rule", json!(format!("history of {flushes} flushes (a synchronous one, two ticks of one run of the periodic task between which only the registrations change, in thorough another synchronous one), killed before each of its {n1} mutating file-system calls (+ torn variants 0 and 1/2 of every *.tmp write); then from each distinct directory state two second runs (start-up in the server's order with the first periodic tick landing during the load - that flush, a new state, a flush; and load, back to the state the slot written next held before, flush) checked on completion and killed before each of their calls; after every crash the real load() runs on a copy of the directory; distinct_nontrivial = number of distinct directory states left behind (file set + contents)")));
    ev.set("crash_points_level1", json!(n1));
    ev.set("level1_runs", json!(jobs.len()));
    ev.set("level1_distinct_directory_states", json!(distinct_dirs.len()));
    ev.set("level2_start_states_used", json!(starts.len()));
    ev.set("level2_runs", json!(l2_jobs.len()));
    ev.set("level2_distinct_directory_states", json!(l2_dirs.len()));
    ev.set("distinct_recovered_states", json!(outcomes.len()));
    ev.set("exhaustive", json!(tier == "thorough" || distinct_dirs.len() <= max_l2));
    ev.set("samples", json!(calls.iter().take(16).collect::<Vec<_>>()));
    ev.assume("process-crash model: completed file operations persist in order; only *.tmp files can be torn (power-loss reordering is outside the property)");
    ev.assume("crash points are injected at the libc boundary (open with O_CREAT/O_TRUNC, write, rename, unlink of an existing file, ...) of calls below the data directory");
    ev.assume("the history alternates the synchronous flush (shutdown / follower path) and one tick of the real periodic flush task (export through the API on a paused clock, file operations on the blocking pool)");
    rep.finish(&mut ev)
}
