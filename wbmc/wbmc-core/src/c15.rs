//! C15 — with authorization on, a client reaches only keys its token grants.
//!
//! Part 1: containment of a requested pattern in a granted one (`auth::pattern_matches`),
//!         exhaustive over all pattern pairs up to depth 4 over {a,ab,?,#} (one literal is a string prefix of the other): whatever the real server
//!         returns for the request must be covered by the grant under the documented relation.
//! Part 2: sessions on a server that requires authorization (real HS256 tokens): request sequences
//!         mixing authorized and unauthorized requests; every key a served request returned,
//!         changed or removed must be covered by a granted pattern of the right privilege.

use crate::{model::*, ops::*, persist::content_of, real::*, session::*};
use jsonwebtoken::{Algorithm, EncodingKey, Header};
use mc::{Evidence, Report, Scenario, StepOut, Verdict, util::{hash_str, par_map}};
use serde_json::{Value, json};
use std::collections::{BTreeMap, BTreeSet};
use tokio::sync::mpsc;
use worterbuch::verif::{Worterbuch, pattern_matches};
use worterbuch_common::{ClientMessage as CM, PStateEvent, ServerMessage as SM, StateEvent, *};

fn all_patterns(alpha: &[&str], max_len: usize) -> Vec<String> {
    let mut out = vec![];
    let mut layer: Vec<Vec<&str>> = vec![vec![]];
    for _ in 0..max_len {
        let mut next = vec![];
        for s in &layer {
            for a in alpha {
                let mut n = s.clone();
                n.push(*a);
                next.push(n);
            }
        }
        out.extend(next.iter().map(|s| s.join("/")));
        layer = next;
    }
    out
}

pub const SIG_GRANT_INNER: &str = "grant_with_inner_multiwildcard_covers_subtree";

/// Part 1. Returns (pairs evaluated, pairs where containment was claimed).
fn containment(rep: &mut Report, max_len: usize) -> (u64, u64, u64) {
    let patterns = all_patterns(&["a", "ab", "?", "#"], max_len);
    let keys = all_patterns(&["a", "ab"], max_len + 1);
    // what the real server returns for each request pattern, on a store holding every key
    let served: Vec<Option<BTreeSet<String>>> = par_map(&patterns, |_, p| {
        block_on(async {
            let mut wb = Worterbuch::with_config(base_config());
            for k in &keys {
                wb.set(k.clone(), json!(1), cid(INTERNAL), false).await.expect("set");
            }
            wb.pget(p).ok().map(|kvs| kvs.into_iter().map(|kv| kv.key).collect())
        })
    });
    let mut pairs = 0u64;
    let mut claimed = 0u64;
    let mut key_checks = 0u64;
    for g in &patterns {
        let gp = parse_pattern(g);
        for (ri, r) in patterns.iter().enumerate() {
            pairs += 1;
            if !pattern_matches(g, r) {
                continue;
            }
            claimed += 1;
            let Some(returned) = &served[ri] else { continue };
            for k in returned {
                key_checks += 1;
                let covered = !has_inner_multi(&gp) && matches(&gp, &split(k), false);
                if covered {
                    continue;
                }
                let replay = json!({"grant": g, "request": r, "key": k});
                let rp = parse_pattern(r);
                if has_inner_multi(&gp) {
                    rep.known_or_violation(
                        SIG_GRANT_INNER,
                        format!("grant {g:?} (not a legal pattern) is taken to contain request {r:?}, which returns key {k:?}"),
                        replay,
                    );
                } else if rp.last() == Some(&Seg::Multi) && matches(&rp[..rp.len() - 1], &split(k), false) {
                    rep.known_or_violation(
                        SIG_HASH_PARENT,
                        format!("grant {g:?} contains request {r:?}, but the server also returns key {k:?} for it, which the grant does not cover"),
                        replay,
                    );
                } else {
                    rep.violation(
                        format!("grant {g:?} is taken to contain request {r:?}, which returns key {k:?} that the grant does not cover"),
                        replay,
                    );
                }
            }
        }
    }
    (pairs, claimed, key_checks)
}

// ------------------------------------------------------------------------------------ part 2

const SECRET: &str = "wbmc-test-secret";

#[derive(Clone, Debug)]
pub struct Grants {
    pub read: Vec<&'static str>,
    pub write: Vec<&'static str>,
    pub delete: Vec<&'static str>,
}

#[derive(Clone, Debug)]
pub enum Token {
    None,
    Valid(Grants),
    Expired(Grants),
    WrongSignature(Grants),
    UnsupportedAlg(Grants),
    Garbage,
}

fn mint(g: &Grants, exp: u64, secret: &str, alg: Algorithm) -> String {
    let claims = json!({
        "sub": "tester", "name": "Tester", "exp": exp,
        "worterbuchPrivileges": {"read": g.read, "write": g.write, "delete": g.delete}
    });
    jsonwebtoken::encode(&Header::new(alg), &claims, &EncodingKey::from_secret(secret.as_bytes())).expect("MACHINERY: mint token")
}

/// Part 3 (wall clock): a token that is presented successfully while it is valid and again, on a new
/// session, after it has expired must be refused the second time (the library's leeway of 60 s is
/// part of "valid"). Only the acceptance after the expiry is a violation; if the machine is so slow
/// that the first presentation already comes too late the case is inconclusive.
fn expiry_case(rep: &mut Report) -> (u64, String) {
    let now = || std::time::SystemTime::now().duration_since(std::time::UNIX_EPOCH).map(|d| d.as_secs()).unwrap_or(0);
    let g = Grants { read: vec!["#"], write: vec!["#"], delete: vec!["#"] };
    // valid for 4 more seconds (leeway 60 s)
    let exp = now() - 56;
    let token = mint(&g, exp, SECRET, Algorithm::HS256);
    let present = |token: String| -> bool {
        block_on(async {
            let mut cfg = base_config();
            cfg.auth_token_key = Some(SECRET.to_owned());
            let wb = Worterbuch::with_config(cfg.clone());
            let mut world = World::new(cfg, wb, &[0]).await;
            world.drain(0);
            let line = serde_json::to_string(&CM::AuthorizationRequest(AuthorizationRequest { auth_token: token })).expect("json");
            world.line(0, &line).await;
            let ok = world.drain(0).iter().any(|m| matches!(m, SM::Authorized(_)));
            world.close(0).await;
            ok
        })
    };
    let first = present(token.clone());
    if !first {
        return (1, "inconclusive: the first presentation came after the expiry".into());
    }
    while now() <= exp + 61 {
        std::thread::sleep(std::time::Duration::from_millis(200));
    }
    let again = present(token.clone());
    let fresh = present(mint(&Grants { read: vec!["a"], write: vec![], delete: vec![] }, exp, SECRET, Algorithm::HS256));
    if again || fresh {
        rep.violation(
            format!("a token that expired at {exp}+60 s was accepted afterwards (seen before: {again}, never seen before: {fresh})"),
            json!({"token_exp": exp, "accepted_again": again, "accepted_fresh": fresh}),
        );
    }
    (3, "decided".into())
}

pub struct AuthScenario {
    pub name: String,
    pub token: Token,
    pub requests: Vec<CM>,
    /// changes made by the server's own client (another, unrestricted writer): what then reaches the
    /// session through its subscriptions must be covered by its read grants
    pub env: Vec<(&'static str, i64)>,
    pub open: BTreeSet<String>,
}

fn covered(grants: &[&str], key: &str) -> bool {
    grants.iter().any(|g| {
        let p = parse_pattern(g);
        !has_inner_multi(&p) && matches(&p, &split(key), false)
    })
}

/// keys a server message reveals, given the request it answers
fn revealed(msg: &SM, req: Option<&CM>, subs: &BTreeMap<u64, String>) -> Vec<String> {
    match msg {
        SM::State(s) => {
            let key = match req {
                Some(CM::Get(g)) if g.transaction_id == s.transaction_id => Some(g.key.clone()),
                Some(CM::Delete(d)) if d.transaction_id == s.transaction_id => Some(d.key.clone()),
                _ => subs.get(&s.transaction_id).cloned(),
            };
            let _ = matches!(s.event, StateEvent::Value(_));
            key.into_iter().collect()
        }
        SM::CState(c) => match req {
            Some(CM::CGet(g)) if g.transaction_id == c.transaction_id => vec![g.key.clone()],
            _ => vec![],
        },
        SM::PState(p) => match &p.event {
            PStateEvent::KeyValuePairs(kvs) | PStateEvent::Deleted(kvs) => kvs.iter().map(|kv| kv.key.clone()).collect(),
        },
        SM::LsState(l) => {
            let parent = match req {
                Some(CM::Ls(x)) if x.transaction_id == l.transaction_id => x.parent.clone(),
                Some(CM::SubscribeLs(x)) if x.transaction_id == l.transaction_id => x.parent.clone(),
                _ => subs.get(&l.transaction_id).cloned().map(|s| if s.is_empty() { None } else { Some(s) }).unwrap_or(None),
            };
            l.children
                .iter()
                .map(|c| match &parent {
                    Some(p) => format!("{p}/{c}"),
                    None => c.clone(),
                })
                .collect()
        }
        _ => vec![],
    }
}

impl Scenario for AuthScenario {
    fn num_ops(&self) -> usize {
        self.requests.len() + self.env.len()
    }
    fn op_json(&self, op: u16) -> Value {
        match self.requests.get(op as usize) {
            Some(r) => json!(serde_json::to_string(r).unwrap_or_default()),
            None => json!(format!("another writer sets {:?}", self.env[op as usize - self.requests.len()])),
        }
    }
    fn run(&self, history: &[u16]) -> Option<StepOut> {
        block_on(async {
            let mut cfg = base_config();
            cfg.auth_token_key = Some(SECRET.to_owned());
            let mut wb = Worterbuch::with_config(cfg.clone());
            for (k, v) in [("a", 1), ("a/b", 2), ("a/b/c", 3), ("ab", 4), ("ab/b", 5)] {
                wb.set(k.into(), json!(v), cid(INTERNAL), false).await.expect("set");
            }
            // unrestricted observer of everything that is published or changed
            let (mut observer, _) = wb.psubscribe(cid(INTERNAL), 9000, "#".into(), false, true).await.expect("observer");
            let mut world = World::new(cfg, wb, &[0]).await;
            world.drain(0);
            let far_future = 4_102_444_800u64; // 2100-01-01
            let (grants, valid) = match &self.token {
                Token::None => (None, false),
                Token::Valid(g) => (Some((g.clone(), mint(g, far_future, SECRET, Algorithm::HS256))), true),
                Token::Expired(g) => (Some((g.clone(), mint(g, 1_000_000_000, SECRET, Algorithm::HS256))), false),
                Token::WrongSignature(g) => (Some((g.clone(), mint(g, far_future, "another-secret", Algorithm::HS256))), false),
                Token::UnsupportedAlg(g) => (Some((g.clone(), mint(g, far_future, SECRET, Algorithm::HS512))), false),
                Token::Garbage => (Some((Grants { read: vec!["#"], write: vec!["#"], delete: vec!["#"] }, "x.y.z".to_owned())), false),
            };
            let mut alive = true;
            if let Some((_, tok)) = &grants {
                let line = serde_json::to_string(&CM::AuthorizationRequest(AuthorizationRequest { auth_token: tok.clone() })).expect("json");
                alive = world.line(0, &line).await;
                let out = world.drain(0);
                let authorized = out.iter().any(|m| matches!(m, SM::Authorized(_)));
                if authorized != valid {
                    return Some(StepOut {
                        fingerprint: 0,
                        verdict: Verdict::Violation(format!("token {:?}: authorized={authorized}, must be {valid}", self.token)),
                        class: "auth".into(),
                    });
                }
            }
            let g = grants.as_ref().map(|g| g.0.clone()).unwrap_or(Grants { read: vec![], write: vec![], delete: vec![] });
            let mut subs: BTreeMap<u64, String> = BTreeMap::new();
            let mut class = String::new();
            let mut known: Vec<(String, String)> = vec![];
            let mut violation: Option<String> = None;
            for (i, o) in history.iter().enumerate() {
                let last = i + 1 == history.len();
                if !alive {
                    if last {
                        return None;
                    }
                    panic!("MACHINERY: closed session in prefix");
                }
                if *o as usize >= self.requests.len() {
                    // another writer changes a key; whatever the session is told about it must be covered
                    let (k, v) = self.env[*o as usize - self.requests.len()];
                    world.drain(0);
                    // (refused where the session turned the key into a CAS value: then nothing happens)
                    world.api.set(k.to_owned(), json!(v), cid(INTERNAL)).await.ok();
                    crate::session::settle().await;
                    let out = world.drain(0);
                    class = format!("env:{}", if out.is_empty() { "silent" } else { "event" });
                    for m in &out {
                        let told = match m {
                            SM::State(_) => vec![k.to_owned()],
                            SM::PState(p) => match &p.event {
                                PStateEvent::KeyValuePairs(kvs) | PStateEvent::Deleted(kvs) => kvs.iter().map(|kv| kv.key.clone()).collect(),
                            },
                            _ => vec![],
                        };
                        for key in told {
                            if !valid || !covered(&g.read, &key) {
                                violation = Some(format!("a change of {key:?} by another writer was delivered to the session ({m:?}), which its read grants {:?} do not cover", g.read));
                            }
                        }
                    }
                    if violation.is_some() {
                        if !last {
                            panic!("MACHINERY: prefix violated on replay: {violation:?}");
                        }
                        break;
                    }
                    continue;
                }
                let req = &self.requests[*o as usize];
                let before = content_of_world(&world).await;
                while observer.try_recv().is_ok() {}
                alive = world.line(0, &serde_json::to_string(req).expect("json")).await;
                let out = world.drain(0);
                let after = content_of_world(&world).await;
                let mut published: Vec<String> = vec![];
                while let Ok(ev) = observer.try_recv() {
                    match ev {
                        // ($SYS bookkeeping of the server itself, e.g. when a session ends, is not the client's doing)
                        PStateEvent::KeyValuePairs(kvs) | PStateEvent::Deleted(kvs) => {
                            published.extend(kvs.into_iter().map(|kv| kv.key).filter(|k| !k.starts_with("$SYS")))
                        }
                    }
                }
                let changed: Vec<String> = before
                    .keys()
                    .chain(after.keys())
                    .filter(|k| before.get(*k) != after.get(*k))
                    .filter(|k| !k.starts_with("$SYS"))
                    .cloned()
                    .collect::<BTreeSet<_>>()
                    .into_iter()
                    .collect();
                let removed: Vec<&String> = changed.iter().filter(|k| !after.contains_key(*k)).collect();
                let refused = out.iter().any(|m| matches!(m, SM::Err(e) if matches!(e.error_code, ErrorCode::Unauthorized | ErrorCode::AuthorizationRequired | ErrorCode::AuthorizationFailed)));
                class = format!("{}:{}", kind_of(req), if !alive { "closed" } else if refused { "refused" } else { "served" });
                // remember streams
                match req {
                    CM::Subscribe(s) if out.iter().any(|m| matches!(m, SM::Ack(a) if a.transaction_id == s.transaction_id)) => {
                        subs.insert(s.transaction_id, s.key.clone());
                    }
                    CM::SubscribeLs(s) if out.iter().any(|m| matches!(m, SM::Ack(a) if a.transaction_id == s.transaction_id)) => {
                        subs.insert(s.transaction_id, s.parent.clone().unwrap_or_default());
                    }
                    _ => {}
                }
                let mut problems: Vec<(Option<&'static str>, String)> = vec![];
                if !valid {
                    // nothing is served before a valid token was presented
                    let leaked: Vec<String> = out.iter().flat_map(|m| revealed(m, Some(req), &subs)).collect();
                    let acked = out.iter().any(|m| matches!(m, SM::Ack(_) | SM::State(_) | SM::PState(_) | SM::CState(_) | SM::LsState(_)));
                    if !changed.is_empty() || !published.is_empty() || !leaked.is_empty() || acked {
                        problems.push((None, format!("request {} was served without a valid token (changed {changed:?}, published {published:?}, returned {leaked:?})", self.op_json(*o))));
                    }
                } else {
                    for m in &out {
                        let mut keys = revealed(m, Some(req), &subs);
                        if let (CM::PLs(pl), SM::LsState(l)) = (req, m) {
                            // children of every stored prefix matching the parent pattern
                            keys.clear();
                            if let Some(pp) = &pl.parent_pattern {
                                let pat = parse_pattern(pp);
                                for k in before.keys() {
                                    let path = split(k);
                                    if path.len() > pat.len() && matches(&pat, &path[..pat.len()], false) && l.children.contains(&path[pat.len()]) {
                                        keys.push(path[..=pat.len()].join("/"));
                                    }
                                }
                            } else {
                                keys = l.children.clone();
                            }
                            keys.sort();
                            keys.dedup();
                        }
                        // what a delete request returns is covered by its own privilege
                        let is_delete_answer = matches!((req, m), (CM::Delete(d), SM::State(s)) if d.transaction_id == s.transaction_id)
                            || matches!((req, m), (CM::PDelete(d), SM::PState(s)) if d.transaction_id == s.transaction_id);
                        let (grants, name) = if is_delete_answer { (&g.delete, "delete") } else { (&g.read, "read") };
                        for k in keys {
                            if !covered(grants, &k) {
                                let sig = read_signature(req, &k, grants);
                                problems.push((sig, format!("{} returned key {k:?}, which the {name} grants {grants:?} do not cover", self.op_json(*o))));
                            }
                        }
                    }
                    for k in &changed {
                        let is_removed = removed.contains(&k);
                        let grants = if is_removed { &g.delete } else { &g.write };
                        if !covered(grants, k) {
                            let sig = read_signature(req, k, grants);
                            problems.push((sig, format!("{} {} key {k:?}, which the {} grants {grants:?} do not cover", self.op_json(*o), if is_removed { "removed" } else { "changed" }, if is_removed { "delete" } else { "write" })));
                        }
                    }
                    for k in &published {
                        if !changed.contains(k) && !k.starts_with("$SYS") && !covered(&g.write, k) {
                            problems.push((None, format!("{} published to key {k:?}, which the write grants {:?} do not cover", self.op_json(*o), g.write)));
                        }
                    }
                    if refused && (!changed.is_empty() || !published.iter().all(|k| k.starts_with("$SYS"))) {
                        problems.push((None, format!("{} was refused but had an effect: changed {changed:?}, published {published:?}", self.op_json(*o))));
                    }
                }
                for (sig, what) in problems {
                    match sig {
                        Some(s) if self.open.contains(s) => known.push((s.to_owned(), what)),
                        _ => {
                            violation = Some(what);
                            break;
                        }
                    }
                }
                if violation.is_some() {
                    if !last {
                        panic!("MACHINERY: prefix violated on replay: {violation:?}");
                    }
                    break;
                }
            }
            let snap = world.snapshot().await.unwrap_or_default();
            world.close(0).await;
            Some(StepOut {
                fingerprint: hash_str(&format!("{snap}|{alive}|{subs:?}")),
                verdict: match violation {
                    Some(v) => Verdict::Violation(v),
                    None if known.is_empty() => Verdict::Ok,
                    None => {
                        known.sort();
                        known.dedup_by(|a, b| a.0 == b.0);
                        Verdict::Known(known)
                    }
                },
                class,
            })
        })
    }
}

/// `P/#` requests also touch `P` (store-side matching): attribute to the known finding
fn read_signature(req: &CM, key: &str, grants: &[&str]) -> Option<&'static str> {
    let pat = match req {
        CM::PGet(p) => Some(p.request_pattern.clone()),
        CM::PDelete(p) => Some(p.request_pattern.clone()),
        CM::PSubscribe(p) => Some(p.request_pattern.clone()),
        _ => None,
    }?;
    let p = parse_pattern(&pat);
    if p.last() == Some(&Seg::Multi) && matches(&p[..p.len() - 1], &split(key), false) && grants.iter().any(|g| pattern_matches(g, &pat)) {
        Some(SIG_HASH_PARENT)
    } else {
        None
    }
}

fn kind_of(m: &CM) -> String {
    serde_json::to_value(m).ok().and_then(|v| v.as_object().and_then(|o| o.keys().next().cloned())).unwrap_or_default()
}

async fn content_of_world(world: &World) -> BTreeMap<String, Value> {
    let snap = world.snapshot().await.unwrap_or_default();
    let mut out = BTreeMap::new();
    fn walk(node: &Value, path: &mut Vec<String>, out: &mut BTreeMap<String, Value>) {
        if let Some(v) = node.get("v") {
            out.insert(path.join("/"), v.clone());
        }
        if let Some(t) = node.get("t").and_then(|t| t.as_object()) {
            for (k, c) in t {
                path.push(k.clone());
                walk(c, path, out);
                path.pop();
            }
        }
    }
    walk(&snap["store"]["data"], &mut vec![], &mut out);
    let _ = content_of;
    out
}

pub fn requests() -> Vec<CM> {
    let s = |x: &str| x.to_owned();
    let mut t = 0u64;
    let mut next = || {
        t += 1;
        t
    };
    let mut out = vec![];
    for k in ["a", "a/b", "a/b/c", "ab"] {
        out.push(CM::Get(Get { transaction_id: next(), key: s(k) }));
        out.push(CM::Set(Set { transaction_id: next(), key: s(k), value: json!(9) }));
        out.push(CM::Delete(Delete { transaction_id: next(), key: s(k) }));
    }
    for k in ["a/b", "ab"] {
        out.push(CM::CGet(Get { transaction_id: next(), key: s(k) }));
        out.push(CM::CSet(CSet { transaction_id: next(), key: s(k), value: json!(8), version: 0 }));
        out.push(CM::Publish(Publish { transaction_id: next(), key: s(k), value: json!(7) }));
        out.push(CM::Lock(Lock { transaction_id: next(), key: s(k) }));
        out.push(CM::Subscribe(Subscribe { transaction_id: next(), key: s(k), unique: false, live_only: None }));
    }
    // key-carrying request kinds whose key is a pattern: the server parses a subscribe key as one
    for (i, k) in ["a/#", "a/?", "#"].iter().enumerate() {
        out.push(CM::Subscribe(Subscribe { transaction_id: 600 + i as u64, key: s(k), unique: false, live_only: Some(true) }));
    }
    out.push(CM::Get(Get { transaction_id: next(), key: s("a/#") }));
    out.push(CM::Set(Set { transaction_id: next(), key: s("a/?"), value: json!(9) }));
    out.push(CM::Delete(Delete { transaction_id: next(), key: s("a/#") }));
    out.push(CM::SPubInit(SPubInit { transaction_id: 500, key: s("ab") }));
    out.push(CM::SPubInit(SPubInit { transaction_id: 501, key: s("a/b") }));
    out.push(CM::SPub(SPub { transaction_id: 500, value: json!(6) }));
    out.push(CM::SPub(SPub { transaction_id: 501, value: json!(6) }));
    for p in ["a/?", "a/#", "?/b", "#", "?"] {
        out.push(CM::PGet(PGet { transaction_id: next(), request_pattern: s(p) }));
        out.push(CM::PDelete(PDelete { transaction_id: next(), request_pattern: s(p), quiet: None }));
        out.push(CM::PSubscribe(PSubscribe { transaction_id: next(), request_pattern: s(p), unique: false, aggregate_events: None, live_only: None }));
    }
    for p in [None, Some("a"), Some("a/b"), Some("ab")] {
        out.push(CM::Ls(Ls { transaction_id: next(), parent: p.map(s) }));
        out.push(CM::SubscribeLs(SubscribeLs { transaction_id: next(), parent: p.map(s) }));
    }
    out.push(CM::PLs(PLs { transaction_id: next(), parent_pattern: Some(s("?")) }));
    out.push(CM::PLs(PLs { transaction_id: next(), parent_pattern: Some(s("a/?")) }));
    out
}

pub fn tokens() -> Vec<(String, Token)> {
    vec![
        ("no-token".into(), Token::None),
        ("a-level".into(), Token::Valid(Grants { read: vec!["a/?"], write: vec!["a/?"], delete: vec!["a/?"] })),
        ("a-subtree".into(), Token::Valid(Grants { read: vec!["a/#"], write: vec!["a/#"], delete: vec!["a/#"] })),
        ("mixed".into(), Token::Valid(Grants { read: vec!["?/b", "a"], write: vec!["a"], delete: vec![] })),
        ("read-all".into(), Token::Valid(Grants { read: vec!["#"], write: vec![], delete: vec![] })),
        ("split".into(), Token::Valid(Grants { read: vec!["a", "a/?"], write: vec!["a/b"], delete: vec!["a/#"] })),
        ("expired".into(), Token::Expired(Grants { read: vec!["#"], write: vec!["#"], delete: vec!["#"] })),
        ("forged".into(), Token::WrongSignature(Grants { read: vec!["#"], write: vec!["#"], delete: vec!["#"] })),
        ("hs512".into(), Token::UnsupportedAlg(Grants { read: vec!["#"], write: vec!["#"], delete: vec!["#"] })),
        ("garbage".into(), Token::Garbage),
    ]
}

pub fn run(tier: &str, known: &mc::Known, lim: impl Fn(usize, usize, bool, u64) -> mc::Limits) -> i32 {
    let mut ev = Evidence::new("C15", tier, "model_checking");
    let mut rep = Report::new("C15");
    let (pairs, claimed, key_checks) = containment(&mut rep, if tier == "thorough" { 5 } else { 4 });
    ev.set("containment_pattern_pairs", json!(pairs));
    ev.set("containment_claimed", json!(claimed));
    ev.set("containment_key_checks", json!(key_checks));
    let mut classes = BTreeSet::new();
    for (name, token) in tokens() {
        let sc = AuthScenario { name: name.clone(), token, requests: requests(), env: vec![("a/b/c", 71), ("a/b", 72), ("ab", 73)], open: known.open_for("C15") };
        let depth = if tier == "thorough" { 8 } else { 5 };
        let stats = mc::explore(&sc, &lim(depth, 2, true, if tier == "thorough" { 400 } else { 30 }));
        eprintln!("[C15/{name}] states={} transitions={} depth={} classes={} known={} violations={}", stats.states, stats.transitions, stats.depth_completed, stats.classes.len(), stats.known.len(), stats.violations.len());
        for c in &stats.classes {
            classes.insert(format!("{name}:{c}"));
        }
        crate::runner::absorb(&name, &sc, &stats, &mut ev, &mut rep, "graph");
    }
    let (n3, outcome) = expiry_case(&mut rep);
    ev.add("evaluations", n3);
    ev.set("token_expiry_case", json!(outcome));
    ev.add("evaluations", pairs);
    ev.set("distinct_nontrivial", json!(classes.len()));
    ev.set("exhaustive", json!(true));
    ev.set("rule", json!("part 1: every (grant, requested pattern) pair over {a,ab,?,#} up to depth 4 (quick) / 5 (thorough); where pattern_matches claims containment, every key the real server returns for the request (measured on a store holding every key over {a,ab} one level deeper) must be covered by the grant under the documented relation. part 2: for each of 10 tokens (no token, 5 grant sets, expired, forged, unsupported algorithm, garbage) every sequence of requests (all request kinds over keys/patterns a, a/b, a/b/c, ab, a/?, a/#, ?/b, #, ?) up to the completed depth on a server that requires authorization; distinct_nontrivial counts distinct (token, request kind, served/refused/closed) classes"));
    ev.assume("only soundness is asserted: served => every key returned, changed or removed (answer, store difference, unrestricted observer) is covered by a grant of the right privilege; not that every containable request is accepted");
    ev.assume("token expiry uses the wall clock: expiry times far in the past (2001) and far in the future (2100) in part 2; part 3 presents one token 4 s before and again after its expiry (real time, about 5 s)");
    ev.assume("children returned by ls are counted as the keys parent/child");
    rep.finish(&mut ev)
}
