//! C11 conformance: explored traces replayed end to end — real `spawn_worterbuch` in leader mode,
//! real follower(s) connecting to the real TCP sync port, in one process on a real-time runtime.
//! Quiescence is established by a marker write that travels the same ordered channel. The final
//! leader and follower contents must equal what the component-level run (c11.rs) computes for the
//! same trace.

use crate::{c11::*, ops::*, persist::content_of, real::*};
use mc::{Scenario, StepOut, Verdict, util::hash_str};
use serde_json::{Value, json};
use std::{
    collections::BTreeMap,
    net::TcpListener,
    sync::atomic::{AtomicU32, Ordering},
    time::Duration,
};
use tokio::sync::mpsc;
use tosub::SubsystemHandle;
use worterbuch::{Config, Endpoint, server::CloneableWbApi};
use worterbuch_common::{Protocol, WbApi};

pub struct E2eScenario {
    pub ops: Vec<LOp>,
}

/// Ports are handed out from one counter per process, so that two worker threads never get the same
/// one; a port that something else on the machine holds is skipped.
fn free_port() -> u16 {
    static NEXT: AtomicU32 = AtomicU32::new(0);
    for _ in 0..20000 {
        let n = NEXT.fetch_add(1, Ordering::Relaxed);
        let port = 20000 + ((std::process::id().wrapping_mul(977).wrapping_add(n)) % 12000) as u16;
        if TcpListener::bind(("127.0.0.1", port)).is_ok() {
            return port;
        }
    }
    panic!("MACHINERY: no free port");
}

/// True once a TCP socket listens on the port (read from the kernel's table, so that the check itself
/// never connects to the sync port and is never mistaken for a follower).
fn is_listening(port: u16) -> bool {
    let needle = format!(":{port:04X} ");
    std::fs::read_to_string("/proc/net/tcp")
        .map(|t| {
            t.lines().skip(1).any(|l| {
                let mut f = l.split_whitespace();
                let local = f.nth(1).unwrap_or("");
                let state = f.nth(1).unwrap_or("");
                state == "0A" && format!("{local} ").ends_with(&needle)
            })
        })
        .unwrap_or(false)
}

async fn root() -> SubsystemHandle {
    let (tx, mut rx) = mpsc::channel::<SubsystemHandle>(1);
    tokio::spawn(async move {
        tosub::build_root("wbmc-e2e")
            .catch_no_signals()
            .no_shutdown_on_stdin_close()
            .with_timeout(Duration::from_millis(200))
            .start(move |s: SubsystemHandle| async move {
                tx.send(s.clone()).await.ok();
                s.shutdown_requested().await;
                Ok::<(), miette::Error>(())
            })
            .await
            .ok();
    });
    rx.recv().await.expect("MACHINERY: subsystem")
}

async fn user_content(api: &CloneableWbApi) -> Result<BTreeMap<String, Value>, String> {
    let kvs = api.pget("#".into()).await.map_err(|e| e.to_string())?;
    let mut out = BTreeMap::new();
    for kv in kvs {
        if kv.key == "$SYS" || kv.key.starts_with("$SYS/") || kv.key == "zz/marker" {
            continue;
        }
        let (v, ver) = api.cget(kv.key.clone()).await.map_err(|e| e.to_string())?;
        out.insert(kv.key, json!([v, ver]));
    }
    Ok(out)
}

fn component_user(c: &BTreeMap<String, Value>) -> BTreeMap<String, Value> {
    c.iter()
        .filter(|(k, _)| *k != "$SYS" && !k.starts_with("$SYS/"))
        .map(|(k, v)| {
            let x = if let Some(p) = v.get("p") { json!([p, 0]) } else { json!([v["c"][0], v["c"][1]]) };
            (k.clone(), x)
        })
        .collect()
}

impl Scenario for E2eScenario {
    fn num_ops(&self) -> usize {
        self.ops.len()
    }
    fn op_json(&self, op: u16) -> Value {
        json!(format!("{:?}", self.ops[op as usize]))
    }
    fn run(&self, history: &[u16]) -> Option<StepOut> {
        let joins = history.iter().filter(|o| matches!(self.ops[**o as usize], LOp::Join)).count();
        if joins > 1 {
            return None;
        }
        // component-level result for the same trace
        let (c_leader, c_follower) = block_on(async {
            let mut leader = Leader::new().await;
            let mut follower: Option<Follower> = None;
            for o in history {
                match &self.ops[*o as usize] {
                    LOp::Join => follower = Some(leader.join().await.expect("MACHINERY: component join")),
                    LOp::Api(op) => {
                        leader.api(op).await.expect("MACHINERY: component api");
                    }
                    LOp::FollowerWrite(_) => {}
                }
                if let Some(f) = follower.as_mut() {
                    f.drain().await.expect("MACHINERY: component drain");
                }
            }
            (component_user(&content_of(&leader.wb)), follower.map(|f| component_user(&content_of(&f.wb))))
        });
        // end to end
        let rt = tokio::runtime::Builder::new_multi_thread().worker_threads(2).enable_all().build().expect("runtime");
        let res: Result<(BTreeMap<String, Value>, Option<BTreeMap<String, Value>>), String> = rt.block_on(async {
            let subsys = root().await;
            let sync_port = free_port();
            let mut lcfg = base_config();
            lcfg.leader = true;
            lcfg.sync_port = Some(sync_port);
            lcfg.tcp_endpoint = Some(Endpoint { tls: false, bind_addr: [127, 0, 0, 1].into(), port: 1 });
            lcfg.tcp_disabled = true;
            lcfg.unix_disabled = true;
            let leader = worterbuch::spawn_worterbuch(&subsys, lcfg).await.map_err(|e| format!("MACHINERY: leader start: {e}"))?;
            // the leader loop runs once the API answers
            leader.entries().await.map_err(|e| format!("leader does not answer: {e}"))?;
            // … and a follower can only join once the sync port listens
            let mut up = false;
            for _ in 0..2000 {
                if is_listening(sync_port) {
                    up = true;
                    break;
                }
                tokio::time::sleep(Duration::from_millis(5)).await;
            }
            if !up {
                return Err("MACHINERY: the leader's sync port did not start listening within 10 s".into());
            }
            let mut follower: Option<CloneableWbApi> = None;
            let mut marker = 0u64;
            for o in history {
                match &self.ops[*o as usize] {
                    LOp::Join => {
                        let mut fcfg = base_config();
                        fcfg.follower = true;
                        fcfg.leader_address = Some(format!("127.0.0.1:{sync_port}"));
                        let f = worterbuch::spawn_worterbuch(&subsys, fcfg).await.map_err(|e| format!("MACHINERY: follower start: {e}"))?;
                        // answers only after the initial sync
                        tokio::time::timeout(Duration::from_secs(10), f.entries())
                            .await
                            .map_err(|_| "the follower did not finish its initial sync within 10 s".to_owned())?
                            .map_err(|e| format!("follower does not answer: {e}"))?;
                        follower = Some(f);
                    }
                    LOp::Api(op) => match op {
                        Op::Set(c, k, v) => { leader.set(k.clone(), v.clone(), cid(*c)).await.ok(); }
                        Op::CSet(c, k, v, ver) => { leader.cset(k.clone(), v.clone(), *ver, cid(*c)).await.ok(); }
                        Op::Delete(c, k) => { leader.delete(k.clone(), cid(*c)).await.ok(); }
                        Op::PDelete(c, p) => { leader.pdelete(p.clone(), cid(*c)).await.ok(); }
                        Op::Import(doc) => { leader.import(doc.clone()).await.ok(); }
                        Op::Connect(c) => { leader.connected(cid(*c), None, Protocol::TCP).await.ok(); }
                        Op::Disconnect(c) => { leader.disconnected(cid(*c), None).await.ok(); }
                        other => return Err(format!("MACHINERY: unsupported op {other:?}")),
                    },
                    LOp::FollowerWrite(_) => {}
                }
            }
            // quiescence: a marker write travels the same ordered channel as everything before it
            let f_content = if let Some(f) = &follower {
                marker += 1;
                leader.set("zz/marker".into(), json!(marker), cid(INTERNAL)).await.map_err(|e| e.to_string())?;
                let mut seen = false;
                for _ in 0..2000 {
                    if f.get("zz/marker".into()).await.ok() == Some(json!(marker)) {
                        seen = true;
                        break;
                    }
                    tokio::time::sleep(Duration::from_millis(5)).await;
                }
                if !seen {
                    return Err("the marker written on the leader never became visible on the follower (10 s)".into());
                }
                Some(user_content(f).await?)
            } else {
                None
            };
            let l_content = user_content(&leader).await?;
            subsys.request_global_shutdown();
            tokio::time::sleep(Duration::from_millis(20)).await;
            Ok((l_content, f_content))
        });
        rt.shutdown_background();
        let verdict = match res {
            Err(e) if e.starts_with("MACHINERY") => panic!("{e}"),
            Err(e) => Verdict::Violation(e),
            Ok((l, f)) => {
                if l != c_leader {
                    Verdict::Violation(format!("leader content end to end {l:?} differs from the component-level run {c_leader:?}"))
                } else if f != c_follower {
                    Verdict::Violation(format!("follower content end to end {f:?} differs from the component-level run {c_follower:?} (leader: {l:?})"))
                } else {
                    Verdict::Ok
                }
            }
        };
        Some(StepOut { fingerprint: hash_str(&format!("{history:?}")), verdict, class: format!("joins:{joins}") })
    }
}

pub fn scenario() -> E2eScenario {
    let s = |x: &str| x.to_owned();
    let key = |c: C, leaf: &str| format!("$SYS/clients/{}/{leaf}", cid(c));
    E2eScenario {
        ops: vec![
            LOp::Join,
            LOp::Api(Op::Connect(0)),
            LOp::Api(Op::Disconnect(0)),
            LOp::Api(Op::Set(0, key(0, "graveGoods"), json!(["g/?"]))),
            LOp::Api(Op::Set(0, s("a"), json!(1))),
            LOp::Api(Op::Set(0, s("g/x"), json!(2))),
            LOp::Api(Op::CSet(0, s("c"), json!(1), 0)),
            LOp::Api(Op::CSet(0, s("c"), json!(2), 7)),
            LOp::Api(Op::CSet(0, s("c"), json!(1), 1)),
            LOp::Api(Op::PDelete(0, s("g/?"))),
            LOp::Api(Op::Import(s(r#"{"data":{"t":{"a":{"v":5},"i":{"v":"x"}}}}"#))),
        ],
    }
}
