mod corescn;
mod model;
mod ops;
mod props_core;
mod real;
mod runner;

use mc::{Known, Limits, Scenario};
use runner::{Tiered, run_scenarios, tier_from_args};
use std::time::Duration;

fn lim(max_depth: usize, min_depth: usize, dedup: bool, wall_s: u64) -> Limits {
    Limits {
        max_depth,
        min_depth,
        dedup,
        wall: Duration::from_secs(wall_s),
        selfcheck: 32,
        ..Default::default()
    }
}

const CORE_ASSUMPTIONS: &[&str] = &[
    "the core is driven directly (one request at a time, which is how the single owner task processes its channel); extended_monitoring=false so that no wall-clock values enter $SYS",
    "built without the jemalloc/telemetry/sqlite features (mem_tools/logging variants); none of the anchored code is behind those features",
    "multi-key answers and the events of one multi-key request are compared as sorted multisets (hash-map iteration order is not part of the property)",
    "import documents with a value at the root of the tree (a key no request can name) are outside the alphabet",
];

fn scenario_for(property: &str, known: &Known) -> Option<Box<dyn Scenario>> {
    Some(match property {
        "C01" => Box::new(props_core::c01(known)),
        "C05" => Box::new(props_core::c05(known)),
        _ => return None,
    })
}

fn main() {
    let args: Vec<String> = std::env::args().collect();
    if args.len() < 2 {
        eprintln!("usage: wbmc-core <Cxx> [quick|thorough] | <Cxx> --replay <file>");
        std::process::exit(2);
    }
    real::init_base_config();
    mc::util::install_quiet_panic_hook();
    let property = args[1].as_str();
    let known = Known::load();
    if args.get(2).map(|s| s.as_str()) == Some("--replay") {
        let Some(sc) = scenario_for(property, &known) else {
            eprintln!("no replayable scenario for {property}");
            std::process::exit(2);
        };
        std::process::exit(runner::replay(sc.as_ref(), &args[3]));
    }
    let tier = tier_from_args(&args);
    let code = match property {
        "C01" => run_scenarios(
            "C01",
            &tier,
            "model_checking",
            vec![(
                "store".into(),
                Box::new(props_core::c01(&known)),
                Tiered { quick: lim(3, 2, true, 40), thorough: lim(8, 3, true, 600) },
                "graph",
            )],
            CORE_ASSUMPTIONS,
            "every history over the listed request alphabet up to the completed depth, de-duplicated by a complete state snapshot; a case is one (state, request) transition; distinct_nontrivial counts distinct (request kind, answer class) pairs observed",
        ),
        "C05" => run_scenarios(
            "C05",
            &tier,
            "model_checking",
            vec![(
                "ls".into(),
                Box::new(props_core::c05(&known)),
                Tiered { quick: lim(3, 2, true, 40), thorough: lim(7, 3, true, 600) },
                "graph",
            )],
            CORE_ASSUMPTIONS,
            "every history over the listed request alphabet (mutators + ls subscriptions at every position) up to the completed depth, de-duplicated by a complete state snapshot; distinct_nontrivial counts distinct (request kind, answer class) pairs observed",
        ),
        other => {
            eprintln!("unknown property {other}");
            2
        }
    };
    std::process::exit(code);
}
