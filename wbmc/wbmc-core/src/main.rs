mod c02;
mod c04;
mod c11;
mod c11e2e;
mod c12;
mod c13serve;
mod c14;
mod c15;
mod c16;
mod c17e2e;
mod c17live;
mod c18;
mod c20;
mod corescn;
mod model;
mod ops;
mod persist;
mod props_core;
mod props_session;
mod real;
mod runner;
mod session;

use mc::{Known, Limits, Scenario};
use runner::{Tiered, run_scenarios, tier_from_args};
use std::time::Duration;

fn lim(max_depth: usize, min_depth: usize, dedup: bool, wall_s: u64) -> Limits {
    Limits {
        max_depth,
        min_depth,
        dedup,
        wall: Duration::from_secs(wall_s),
        selfcheck: 32,
        ..Default::default()
    }
}

const CORE_ASSUMPTIONS: &[&str] = &[
    "the core is driven directly (one request at a time, which is how the single owner task processes its channel); extended_monitoring=false so that no wall-clock values enter $SYS",
    "built without the jemalloc/telemetry/sqlite features (mem_tools/logging variants); none of the anchored code is behind those features",
    "multi-key answers and the events of one multi-key request are compared as sorted multisets (hash-map iteration order is not part of the property)",
    "import documents with a value at the root of the tree (a key no request can name) are outside the alphabet",
];

const SESSION_ASSUMPTIONS: &[&str] = &[
    "sessions are driven in process: the real core task (body of run_in_regular_mode without the shutdown branch), one real Proto per session fed one line at a time, outgoing messages read from the session's channel; after every line the harness yields 24 times so that forwarding tasks run (their polling order among each other is tokio's FIFO and is not enumerated; the oracle does not depend on it)",
    "handshake messages (protocol switch, authorization) are not 'requests'; duplicate subscription ids are outside the statements",
    "messages are attributed to requests by transaction id; the order between messages of different transaction ids is not asserted",
    "extended_monitoring=false; jemalloc/telemetry/sqlite features off; debug assertions and overflow checks on",
];

/// The scenario a replay file was written by (`replay.scenario` in the file); `thorough` selects the
/// thorough tier's alphabet where the tiers differ.
fn scenario_for(property: &str, name: &str, thorough: bool, known: &Known) -> Option<Box<dyn Scenario>> {
    Some(match (property, name) {
        ("C01", _) => Box::new(props_core::c01(known)),
        ("C05", "lazy-cleanup-no-dedup") => Box::new(props_core::c05_lazy(known)),
        ("C05", _) => Box::new(props_core::c05(known)),
        ("C03", "lazy-cleanup-no-dedup") => Box::new(props_core::c03_lazy(known)),
        ("C03", _) => Box::new(props_core::c03(known, 3)),
        ("C06", "four-clients") => Box::new(props_core::c06_four(known)),
        ("C06", "locks-and-data") => Box::new(props_core::c06(known, &[0, 1], &["x", "x/y"], true)),
        ("C06", _) => Box::new(props_core::c06(known, &[0, 1, 2], &["x", "x/y"], false)),
        ("C07", "locks-at-session-end") => Box::new(props_core::c07_locks(known)),
        ("C07", _) => Box::new(props_core::c07(known, thorough)),
        ("C08", _) => Box::new(props_core::c08(known)),
        ("C11", "end-to-end") => Box::new(c11e2e::scenario()),
        ("C12", _) => {
            c12::init_role_configs();
            Box::new(c12::scenario(known.open_for("C12")))
        }
        ("C13", "core-alphabet") => Box::new(props_session::c13(known, false)),
        ("C13", "lock-queue") => Box::new(props_session::c13_locks(known)),
        ("C13", "serve-pipelined") => Box::new(c13serve::scenario(known, true)),
        ("C13", _) => Box::new(props_session::c13(known, true)),
        ("C17", "end-to-end") => Box::new(c17e2e::scenario()),
        ("C17", "monitoring-on") => Box::new(c17live::scenario()),
        ("C17", "adversary-core") => Box::new(props_session::c17(known, false)),
        ("C17", "adversary-key-shapes") => Box::new(props_session::c17_keys(known)),
        ("C17", _) => Box::new(props_session::c17(known, true)),
        _ => return None,
    })
}

fn main() {
    let args: Vec<String> = std::env::args().collect();
    if args.len() < 2 {
        eprintln!("usage: wbmc-core <Cxx> [quick|thorough] | <Cxx> --replay <file> [thorough]");
        std::process::exit(2);
    }
    real::init_base_config();
    if args[1] == "persist-child" {
        std::process::exit(persist::child_main(&args[2..]));
    }
    c12::init_role_configs();
    if args[1] == "ops" {
        // wbmc-core ops <Cxx> [scenario] : the indexed alphabet of a replayable scenario
        let known = Known::load();
        if let Some(sc) = scenario_for(&args[2], args.get(3).map(|s| s.as_str()).unwrap_or(""), false, &known) {
            for i in 0..sc.num_ops() {
                println!("{i} {}", sc.op_json(i as u16));
            }
        }
        return;
    }
    if args[1] == "debug-e2e" {
        worterbuch::logging::init().ok();
        let sc = c11e2e::scenario();
        let h: Vec<u16> = args[2..].iter().filter_map(|a| a.parse().ok()).collect();
        println!("{:?}", sc.run(&h));
        return;
    }
    mc::util::install_quiet_panic_hook();
    let property = args[1].as_str();
    let known = Known::load();
    if args.get(2).map(|s| s.as_str()) == Some("--replay") {
        let file: serde_json::Value = std::fs::read_to_string(&args[3]).ok().and_then(|t| serde_json::from_str(&t).ok()).unwrap_or_default();
        let name = file["replay"]["scenario"].as_str().unwrap_or("").to_owned();
        let thorough = args.get(4).map(|s| s.as_str()) == Some("thorough");
        let Some(sc) = scenario_for(property, &name, thorough, &known) else {
            eprintln!("no replayable scenario for {property}");
            std::process::exit(2);
        };
        std::process::exit(runner::replay(sc.as_ref(), &args[3]));
    }
    let tier = tier_from_args(&args);
    let code = mc::util::guard_main(property, || match property {
        "C01" => run_scenarios(
            "C01",
            &tier,
            "model_checking",
            vec![(
                "store".into(),
                Box::new(props_core::c01(&known)),
                Tiered { quick: lim(7, 3, true, 40), thorough: lim(12, 5, true, 600) },
                "graph",
            ), (
                // short histories without de-duplication: state the snapshot cannot see (a cache a
                // change might add) is not merged away
                "store-no-dedup".into(),
                Box::new(props_core::c01(&known)),
                Tiered { quick: lim(3, 3, false, 30), thorough: lim(4, 3, false, 400) },
                "tree",
            )],
            CORE_ASSUMPTIONS,
            "every history over the listed request alphabet up to the completed depth, de-duplicated by a complete state snapshot; a case is one (state, request) transition; distinct_nontrivial counts distinct (request kind, answer class) pairs observed",
        ),
        "C05" => run_scenarios(
            "C05",
            &tier,
            "model_checking",
            vec![(
                "ls".into(),
                Box::new(props_core::c05(&known)),
                Tiered { quick: lim(6, 3, true, 40), thorough: lim(9, 4, true, 600) },
                "graph",
            ), (
                "ls-no-dedup".into(),
                Box::new(props_core::c05(&known)),
                Tiered { quick: lim(3, 3, false, 30), thorough: lim(4, 3, false, 400) },
                "tree",
            ), (
                "lazy-cleanup-no-dedup".into(),
                Box::new(props_core::c05_lazy(&known)),
                Tiered { quick: lim(6, 4, false, 30), thorough: lim(7, 6, false, 400) },
                "tree",
            )],
            CORE_ASSUMPTIONS,
            "every history over the listed request alphabet (mutators + ls subscriptions at every position) up to the completed depth, de-duplicated by a complete state snapshot; distinct_nontrivial counts distinct (request kind, answer class) pairs observed",
        ),
        "C04" => c04::run(&tier),
        "C11" => run_scenarios(
            "C11",
            &tier,
            "model_checking",
            vec![
                (
                    "replication".into(),
                    Box::new(c11::scenario(known.open_for("C11"), if tier == "thorough" { 2 } else { 1 })),
                    Tiered { quick: lim(6, 3, true, 45), thorough: lim(9, 5, true, 600) },
                    "graph",
                ),
                (
                    "replication-no-dedup".into(),
                    Box::new(c11::scenario(known.open_for("C11"), 1)),
                    Tiered { quick: lim(3, 3, false, 30), thorough: lim(4, 3, false, 400) },
                    "tree",
                ),
                (
                    "end-to-end".into(),
                    Box::new(c11e2e::scenario()),
                    Tiered { quick: lim(3, 2, false, 40), thorough: lim(4, 3, false, 500) },
                    "tree",
                ),
            ],
            &[
                "component level: the real branch bodies of the leader loop and of the follower are called one event at a time; the leader loop's biased priority is honoured (pending grave-goods/last-will events are forwarded before the next join or request), so no explored schedule is one the real loop cannot produce",
                "what travels over the TCP sync connection is passed through the real JSON encoding of LeaderSyncMessage; the socket itself (ordered byte stream) is not part of the exploration",
                "a follower applies its command stream in order, so delivering everything after each leader step explores all outcomes: its state is a function of (initial sync, command sequence)",
                "quiescence = every command the leader sent has been applied (channels drained), never a wait",
            ],
            "every history of leader-side client activity (connect/disconnect, writes accepted and rejected, deletes, pdeletes, imports, grave-goods/last-will registrations of two clients), follower joins at every position and writes offered to the follower, up to the completed depth, de-duplicated by leader snapshot + follower contents; distinct_nontrivial counts distinct (request kind, outcome) pairs",
        ),
        "C12" => {
            let code = run_scenarios(
                "C12",
                &tier,
                "model_checking",
                vec![(
                    "promotion".into(),
                    Box::new(c12::scenario(known.open_for("C12"))),
                    Tiered { quick: lim(5, 3, true, 50), thorough: lim(7, 4, true, 600) },
                    "graph",
                ), (
                    "promotion-no-dedup".into(),
                    Box::new(c12::scenario(known.open_for("C12"))),
                    Tiered { quick: lim(3, 3, false, 30), thorough: lim(4, 3, false, 400) },
                    "tree",
                )],
                &[
                    "component level: leader branch bodies as in C11; the follower node's core comes from the real persistence::restore with the configuration Config::new(Some(Args{--follower ...})) yields when only WORTERBUCH_DATA_DIR is in the environment (what the orchestrator passes); its flush points are those of run_in_follower_mode (after the initial sync, on persistence ticks, in the shutdown sequence); promotion = real restore with the --leader configuration on the same directory",
                    "the orchestrator stops a follower by closing its stdin (shutdown sequence), which is what is modelled; a killed follower is C10's subject",
                    "JSON persistence (the default mode); sockets and the election are not part of this check (C19)",
                ],
                "every leader history (connect/disconnect, writes, deletes, registrations of two clients) with the follower joining at every position, persistence ticks at every position and the leader lost at every quiescent position, up to the completed depth; a promotion ends a history; distinct_nontrivial counts distinct (step kind, outcome) pairs",
            );
            std::fs::remove_dir_all(persist::scratch_root()).ok();
            code
        }
        "C18" => {
            let code = run_scenarios(
                "C18",
                &tier,
                "fault_enumeration",
                vec![
                    (
                        "crash".into(),
                        Box::new(c18::scenario(known.open_for("C18"), false)),
                        Tiered { quick: lim(4, 3, false, 50), thorough: lim(5, 4, false, 900) },
                        "tree",
                    ),
                    (
                        "clean-stop".into(),
                        Box::new(c18::scenario(known.open_for("C18"), true)),
                        Tiered { quick: lim(3, 2, false, 30), thorough: lim(4, 3, false, 400) },
                        "tree",
                    ),
                ],
                &[
                    "crash model: the process disappears between two polls of the runtime (the whole tokio runtime of the first life is dropped): queued, uncommitted store actions are lost, committed redb transactions are durable (redb's atomic commit is trusted here)",
                    "the writer task runs exactly where the explored history has a settle point, so every partition of the queued changes into writer batches is produced; the order of the single-key changes of one multi-key request is not fixed (hash order), so any subset of them is an admissible partial state",
                    "the reference takes accepted/rejected from the flat-map model (C01) and folds the persisted actions; registrations are applied as at restart",
                ],
                "all sequences over {set, cset (matching and stale), delete, pdelete of one and of several keys, connect, grave-goods / last-will registration, disconnect, settle (writer runs)} up to the completed depth, each ended by a crash (drop of the runtime) or by a clean stop (flush), followed by a restore from the database file in a fresh runtime; distinct_nontrivial counts distinct (last step, outcome) classes",
            );
            std::fs::remove_dir_all(persist::scratch_root()).ok();
            code
        }
        "C20" => {
            let mut ev = mc::Evidence::new("C20", &tier, "model_checking");
            let mut rep = mc::Report::new("C20");
            let mut classes = std::collections::BTreeSet::new();
            let thorough = tier == "thorough";
            let mut run_one = |name: &str, sc: &dyn Scenario, l: mc::Limits, ev: &mut mc::Evidence, rep: &mut mc::Report, engine: &str| {
                let stats = mc::explore(sc, &l);
                eprintln!("[C20/{name}] states={} transitions={} depth={} fixpoint={} cap={:?} classes={} known={} violations={}", stats.states, stats.transitions, stats.depth_completed, stats.exhausted, stats.capped, stats.classes.len(), stats.known.len(), stats.violations.len());
                for c in &stats.classes {
                    classes.insert(format!("{name}:{c}"));
                }
                runner::absorb(name, sc, &stats, ev, rep, engine);
            };
            for (name, sc) in c20::pairing_scenarios(&tier) {
                let total: usize = sc.scripts.iter().map(Vec::len).sum::<usize>() * 2;
                run_one(&name, &sc, lim(total + 1, 4, true, if thorough { 500 } else { 25 }), &mut ev, &mut rep, "graph/sched");
            }
            let upd = c20::UpdateScenario { tasks: 3 };
            run_one("update-race", &upd, lim(40, 4, true, if thorough { 400 } else { 30 }), &mut ev, &mut rep, "graph/sched");
            let buf = c20::buffer_scenario();
            run_one("send-buffer", &buf, lim(if thorough { 7 } else { 5 }, 3, false, if thorough { 600 } else { 30 }), &mut ev, &mut rep, "tree");
            let gbuf = c20::gated_buffer_scenario();
            run_one("send-buffer-slow-server", &gbuf, lim(if thorough { 8 } else { 6 }, 3, false, if thorough { 600 } else { 30 }), &mut ev, &mut rep, "tree");
            let ids = c20::id_scenario();
            run_one("transaction-ids", &ids, lim(if thorough { 7 } else { 5 }, 3, false, if thorough { 600 } else { 30 }), &mut ev, &mut rep, "tree");
            let (nt, tsamples) = c20::run_typed(&mut rep);
            ev.add("evaluations", nt);
            ev.set("typed_result_comparisons", serde_json::json!(nt));
            for s in tsamples.into_iter().take(3) {
                ev.push_sample(s);
            }
            let (n, samples) = c20::run_unsubscribe(&mut rep);
            ev.add("evaluations", n);
            ev.set("unsubscribe_variants_checked", serde_json::json!(n));
            for s in samples {
                ev.push_sample(s);
            }
            ev.set("distinct_nontrivial", serde_json::json!(classes.len()));
            ev.set("exhaustive", serde_json::json!(true));
            ev.set("rule", serde_json::json!("(1) every interleaving of 'task i submits its next call' and 'the server processes the next queued request' for 2-3 tasks with 2-3 calls each on colliding keys over one real client connection (unix transport, real serve loop, real core task gated by the explorer), explored to the end and de-duplicated by (store, queue, task positions); (2) the same for tasks racing update() on one counter; (3) all sequences of set_later/publish_later on colliding keys and clock advances of D/2 and D for the send buffer on a paused clock, followed by a final advance; (4) the four unsubscribe variants x value/pattern/ls; distinct_nontrivial counts distinct (scenario, step kind) classes"));
            for a in [
                "one stimulus at a time: after every release the harness yields a fixed number of times on a paused current-thread runtime (event_interval 1) and never parks, so a both-ready select! of the client's run loop is equivalent to one of the two sequential orders, both of which are explored",
                "requests of one connection reach the core in submission order (ordered byte stream, sequential serve loop); the i-th submitted call is the i-th request the core processes on that connection",
                "a real unix socket is used inside the runtime; the determinism self-check of the explorer guards the assumption that its readiness order is reproducible",
                "the local (in-process) transport of the client library is not covered",
            ] {
                ev.assume(a);
            }
            let code = rep.finish(&mut ev);
            std::fs::remove_dir_all(persist::scratch_root()).ok();
            code
        }
        "C14" => c14::run(&tier),
        "C15" => c15::run(&tier, &known, lim),
        "C16" => run_scenarios(
            "C16",
            &tier,
            "model_checking",
            vec![
                (
                    "aggregator".into(),
                    Box::new(c16::agg_scenario()),
                    Tiered { quick: lim(6, 5, false, 45), thorough: lim(8, 6, false, 600) },
                    "tree",
                ),
                (
                    "aggregator-big-batch".into(),
                    Box::new(c16::big_batch_scenario()),
                    Tiered { quick: lim(4, 3, false, 30), thorough: lim(6, 4, false, 300) },
                    "tree",
                ),
                (
                    "aggregator-slow-client".into(),
                    Box::new(c16::slow_client_scenario()),
                    Tiered { quick: lim(5, 4, false, 30), thorough: lim(7, 5, false, 400) },
                    "tree",
                ),
                (
                    "session-snapshot".into(),
                    Box::new(c16::session_scenario(false)),
                    Tiered { quick: lim(4, 3, false, 30), thorough: lim(6, 4, false, 300) },
                    "tree",
                ),
                (
                    "session-live-only".into(),
                    Box::new(c16::session_scenario(true)),
                    Tiered { quick: lim(3, 3, false, 30), thorough: lim(5, 4, false, 300) },
                    "tree",
                ),
            ],
            &[
                "paused tokio clock: time moves only by the explorer's advance steps (in 10 ms increments, so delays are observed with 10 ms resolution); after every step the harness yields so that exactly one stimulus is outstanding - a both-ready select! of the real loop is equivalent to one of the two sequential orders, and both are explored as different step sequences",
                "the client connection can always take messages (channel capacity 1000)",
                "interval 100 ms; events carry unique values so that losses, duplicates and reorderings are attributable",
            ],
            "all sequences of {set a, set b, delete a, delete b, advance I/2, advance I} handed to the real PStateAggregator (followed by a final advance of 2I), and all sequences of writes/deletes/advances on a live session with an aggregated and a plain psubscribe on the same pattern; distinct_nontrivial counts distinct (scenario, number of batches/events) classes",
        ),
        "C09" => persist::run_c09(&tier),
        "C10" => persist::run_c10(&tier),
        "C13" => run_scenarios(
            "C13",
            &tier,
            "model_checking",
            vec![
                (
                    "full-alphabet".into(),
                    Box::new(props_session::c13(&known, true)),
                    Tiered { quick: lim(4, 2, true, 40), thorough: lim(5, 3, true, 500) },
                    "graph",
                ),
                (
                    "serve-pipelined".into(),
                    Box::new(c13serve::scenario(&known, true)),
                    Tiered { quick: lim(2, 2, false, 40), thorough: lim(3, 2, false, 500) },
                    "tree",
                ),
                (
                    "lock-queue".into(),
                    Box::new(props_session::c13_locks(&known)),
                    Tiered { quick: lim(6, 3, true, 30), thorough: lim(10, 5, true, 400) },
                    "graph",
                ),
                (
                    "core-alphabet".into(),
                    Box::new(props_session::c13(&known, false)),
                    Tiered { quick: lim(5, 2, true, 40), thorough: lim(6, 4, true, 500) },
                    "graph",
                ),
                (
                    "core-alphabet-no-dedup".into(),
                    Box::new(props_session::c13_nodedup(&known)),
                    Tiered { quick: lim(3, 2, false, 30), thorough: lim(4, 3, false, 400) },
                    "tree",
                ),
            ],
            SESSION_ASSUMPTIONS,
            "every sequence of request lines (all request kinds of protocol v0 and v1 with valid and invalid arguments) of two concurrent sessions through the real protocol handler and the real core task, up to the completed depth, de-duplicated by the core snapshot plus session state; distinct_nontrivial counts distinct request kinds exercised per scenario",
        ),
        "C17" => run_scenarios(
            "C17",
            &tier,
            "model_checking",
            vec![
                (
                    "adversary-full".into(),
                    Box::new(props_session::c17(&known, true)),
                    Tiered { quick: lim(2, 2, false, 40), thorough: lim(3, 2, false, 600) },
                    "tree",
                ),
                (
                    "adversary-core".into(),
                    Box::new(props_session::c17(&known, false)),
                    Tiered { quick: lim(3, 2, false, 40), thorough: lim(4, 3, false, 600) },
                    "tree",
                ),
                (
                    "end-to-end".into(),
                    Box::new(c17e2e::scenario()),
                    Tiered { quick: lim(2, 1, false, 40), thorough: lim(3, 2, false, 400) },
                    "tree",
                ),
                (
                    "monitoring-on".into(),
                    Box::new(c17live::scenario()),
                    Tiered { quick: lim(2, 1, false, 30), thorough: lim(3, 2, false, 400) },
                    "tree",
                ),
                (
                    "adversary-key-shapes".into(),
                    Box::new(props_session::c17_keys(&known)),
                    Tiered { quick: lim(1, 1, false, 40), thorough: lim(2, 1, false, 600) },
                    "tree",
                ),
            ],
            SESSION_ASSUMPTIONS,
            "third scenario: every request kind that takes a key, pattern or parent crossed with 26 key shapes at the edges of the server's special cases ($SYS/clients/<id> guard at every length for the own and another client, empty segments, wildcards in every position, nested keys), singly (quick) and in pairs (thorough); first two: every sequence of adversary lines (all request kinds with valid/invalid/absurd arguments, malformed and undecodable lines) interleaved with witness requests, each followed by a fixed witness script whose answers the reference predicts; harness built with debug assertions and overflow checks; distinct_nontrivial counts distinct line kinds",
        ),
        "C02" => {
            let mut v: Vec<(String, Box<dyn Scenario>, Tiered, &'static str)> = vec![];
            for (name, sc) in c02::scenarios(&tier) {
                let total: usize = sc.programs.iter().map(Vec::len).sum();
                v.push((
                    name,
                    Box::new(sc),
                    Tiered { quick: lim(total + 1, total, true, 40), thorough: lim(total + 1, total, true, 600) },
                    "graph",
                ));
            }
            run_scenarios(
                "C02",
                &tier,
                "model_checking",
                v,
                &[
                    "request granularity: one request is processed to completion by the single task that owns the core (structural, worterbuch/src/lib.rs run_in_regular_mode); the explorer decides which client's next request is applied",
                    "at version u64::MAX a cset cannot raise the version by one; the reference expects it to be refused with a version mismatch",
                    "extended_monitoring=false; jemalloc/telemetry/sqlite features off",
                ],
                "every interleaving of the requests of the listed client programs (cget; cset-with-that-version cycles, a plain writer, a deleter, a rogue client with stale/future/boundary versions), explored to the end of all programs and de-duplicated by (stored tree, program counters, each client's last read); distinct_nontrivial counts distinct outcome classes per scenario (won / stale / future / refused / ...)",
            )
        }
        "C03" => run_scenarios(
            "C03",
            &tier,
            "model_checking",
            vec![(
                "events".into(),
                Box::new(props_core::c03(&known, 3)),
                Tiered { quick: lim(6, 3, true, 40), thorough: lim(9, 4, true, 600) },
                "graph",
            ), (
                "events-no-dedup".into(),
                Box::new(props_core::c03(&known, 3)),
                Tiered { quick: lim(3, 3, false, 30), thorough: lim(4, 3, false, 400) },
                "tree",
            ), (
                "lazy-cleanup-no-dedup".into(),
                Box::new(props_core::c03_lazy(&known)),
                Tiered { quick: lim(6, 4, false, 30), thorough: lim(8, 6, false, 400) },
                "tree",
            )],
            CORE_ASSUMPTIONS,
            "every history over mutators, publish and (p)subscribe/unsubscribe/disconnect requests (at most 3 concurrent subscriptions) up to the completed depth, de-duplicated by a complete state snapshot; every receiver is drained after every request and compared with the reference's expected stream; distinct_nontrivial counts distinct (request kind, answer class) pairs",
        ),
        "C06" => run_scenarios(
            "C06",
            &tier,
            "model_checking",
            vec![(
                "locks".into(),
                Box::new(props_core::c06(&known, &[0, 1, 2], &["x", "x/y"], false)),
                Tiered { quick: lim(7, 3, true, 40), thorough: lim(10, 5, true, 600) },
                "graph",
            ), (
                "locks-no-dedup".into(),
                Box::new(props_core::c06(&known, &[0, 1, 2], &["x", "x/y"], false)),
                Tiered { quick: lim(4, 3, false, 30), thorough: lim(5, 3, false, 400) },
                "tree",
            ), (
                "locks-and-data".into(),
                Box::new(props_core::c06(&known, &[0, 1], &["x", "x/y"], true)),
                Tiered { quick: lim(6, 3, true, 30), thorough: lim(9, 5, true, 400) },
                "graph",
            ), (
                "four-clients".into(),
                Box::new(props_core::c06_four(&known)),
                Tiered { quick: lim(7, 3, true, 30), thorough: lim(10, 5, true, 400) },
                "graph",
            )],
            CORE_ASSUMPTIONS,
            "third scenario: four clients on one key (a queue of three waiters, leaving from its front, middle and end); second scenario: the same by two clients together with set / delete / pdelete of the locked keys and their children (locks are advisory and live beside the data); first: every sequence of lock/acquireLock/releaseLock/disconnect/connect by three clients over two nested keys up to the completed depth, de-duplicated by a complete state snapshot; acquire receivers are polled after every request; distinct_nontrivial counts distinct (request kind, answer class) pairs",
        ),
        "C07" => run_scenarios(
            "C07",
            &tier,
            "model_checking",
            vec![(
                "sessions".into(),
                Box::new(props_core::c07(&known, tier == "thorough")),
                Tiered { quick: lim(6, 3, true, 40), thorough: lim(8, 4, true, 600) },
                "graph",
            ), (
                "sessions-no-dedup".into(),
                Box::new(props_core::c07(&known, false)),
                Tiered { quick: lim(3, 3, false, 30), thorough: lim(4, 3, false, 400) },
                "tree",
            ), (
                "locks-at-session-end".into(),
                Box::new(props_core::c07_locks(&known)),
                Tiered { quick: lim(7, 3, true, 30), thorough: lim(10, 5, true, 400) },
                "graph",
            )],
            CORE_ASSUMPTIONS,
            "second scenario: every sequence of lock/acquireLock/releaseLock on two keys, connect and disconnect by two clients (plus one grave-goods registration and one covered write), so that the ending session's lock bookkeeping holds stale, duplicate and queued entries before the locks it really holds; first scenario: every history of connect, grave-goods/last-will (re-)registration, user writes, subscriptions, publish streams, locks and disconnect up to the completed depth, de-duplicated by a complete state snapshot; distinct_nontrivial counts distinct (request kind, answer class) pairs",
        ),
        "C08" => run_scenarios(
            "C08",
            &tier,
            "model_checking",
            vec![(
                "sys".into(),
                Box::new(props_core::c08(&known)),
                Tiered { quick: lim(4, 2, true, 40), thorough: lim(5, 3, true, 600) },
                "graph",
            ), (
                "sys-no-dedup".into(),
                Box::new(props_core::c08(&known)),
                Tiered { quick: lim(2, 2, false, 30), thorough: lim(3, 2, false, 400) },
                "tree",
            )],
            CORE_ASSUMPTIONS,
            "every history of requests of an ordinary client (set, cset, delete, pdelete, publish, spub, lock, grave goods / last will + disconnect) over every key/pattern shape that can reach $SYS, up to the completed depth, with sentinels planted and watched by the server's own client; distinct_nontrivial counts distinct (request kind, answer class) pairs",
        ),
        other => {
            eprintln!("unknown property {other}");
            2
        }
    });
    std::process::exit(code);
}
