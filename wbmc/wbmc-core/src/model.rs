//! Reference model of the worterbuch core ("RefCore"): a flat ordered map plus a few tables.
//!
//! It implements the behaviour the property statements describe. Every known deviation of the
//! pinned implementation is a named *switch* (`Flags`) that reproduces that one deviation and
//! nothing else; a check only ever turns on switches that `known_findings.json` lists as open
//! for its property.

use crate::ops::*;
use serde_json::{Map, Value, json};
use std::collections::{BTreeMap, BTreeSet};

pub type Path = Vec<String>;

#[derive(Clone, Debug, PartialEq)]
pub enum Entry {
    Plain(Value),
    Cas(Value, u64),
}

impl Entry {
    pub fn value(&self) -> &Value {
        match self {
            Entry::Plain(v) | Entry::Cas(v, _) => v,
        }
    }
    pub fn version(&self) -> u64 {
        match self {
            Entry::Plain(_) => 0,
            Entry::Cas(_, n) => *n,
        }
    }
}

#[derive(Clone, Debug, PartialEq, Eq)]
pub enum Seg {
    Lit(String),
    One,
    Multi,
}

pub fn parse_pattern(p: &str) -> Vec<Seg> {
    p.split('/')
        .map(|s| match s {
            "?" => Seg::One,
            "#" => Seg::Multi,
            o => Seg::Lit(o.to_owned()),
        })
        .collect()
}

pub fn split(k: &str) -> Path {
    k.split('/').map(ToOwned::to_owned).collect()
}

pub const E_ILLEGAL_WILDCARD: u8 = 0;
pub const E_ILLEGAL_MULTI: u8 = 1;
pub const E_MULTI_POS: u8 = 2;
pub const E_IO: u8 = 3;
pub const E_SERDE: u8 = 4;
pub const E_NO_SUCH_VALUE: u8 = 5;
pub const E_NOT_SUBSCRIBED: u8 = 6;
pub const E_READ_ONLY: u8 = 9;
pub const E_NO_PUB_STREAM: u8 = 15;
pub const E_NOT_LEADER: u8 = 16;
pub const E_CAS: u8 = 17;
pub const E_CAS_MISMATCH: u8 = 18;
pub const E_NOT_IMPLEMENTED: u8 = 19;
pub const E_KEY_LOCKED: u8 = 20;
pub const E_KEY_NOT_LOCKED: u8 = 21;
pub const E_LOCK_CANCELLED: u8 = 22;
pub const E_CLIENT_ID_COLLISION: u8 = 24;
pub const E_EMPTY_KEY: u8 = 25;

/// A key is a pattern without wildcards.
pub fn parse_key(k: &str) -> Result<Path, u8> {
    let mut out = vec![];
    for s in k.split('/') {
        match s {
            "?" => return Err(E_ILLEGAL_WILDCARD),
            "#" => return Err(E_ILLEGAL_MULTI),
            o => out.push(o.to_owned()),
        }
    }
    Ok(out)
}

pub fn has_inner_multi(p: &[Seg]) -> bool {
    p.iter()
        .enumerate()
        .any(|(i, s)| *s == Seg::Multi && i + 1 != p.len())
}

/// The documented wildcard relation: `?` exactly one level, a trailing `#` one or more remaining
/// levels (`hash_zero`: zero or more — the `multiwildcard_matches_parent` deviation), anything
/// else only itself. Patterns with a non-final `#` match nothing (they are rejected before).
pub fn matches(p: &[Seg], k: &[String], hash_zero: bool) -> bool {
    match p.first() {
        None => k.is_empty(),
        Some(Seg::Multi) => {
            if p.len() != 1 {
                return false;
            }
            if hash_zero { true } else { !k.is_empty() }
        }
        Some(Seg::One) => !k.is_empty() && matches(&p[1..], &k[1..], hash_zero),
        Some(Seg::Lit(s)) => !k.is_empty() && k[0] == *s && matches(&p[1..], &k[1..], hash_zero),
    }
}

/// How a pattern request of an ordinary client that can reach `$SYS` through a wildcard in its
/// first segment is treated. The statement (C08) only demands that no protected value changes,
/// so `Skip`, `SkipExceptOwn` and `Refuse` are all conforming; `Included` is the deviation
/// `sys_guard_literal_first_segment`.
#[derive(Clone, Copy, Debug, PartialEq, Eq)]
pub enum SysMode {
    Skip,
    SkipExceptOwn,
    Refuse,
    Included,
}

#[derive(Clone, Copy, Debug, PartialEq)]
pub struct Flags {
    pub sys_mode: SysMode,
    /// `multiwildcard_matches_parent`: store-side matching lets `P/#` match `P`
    pub hash_parent: bool,
    /// `sys_publish_unguarded`: publish/spub to a protected `$SYS` key reaches subscribers
    pub publish_unguarded: bool,
    /// `import_no_ls_notify`: import does not notify ls subscribers
    pub import_no_ls: bool,
}

impl Default for Flags {
    fn default() -> Self {
        Flags {
            sys_mode: SysMode::Skip,
            hash_parent: false,
            publish_unguarded: false,
            import_no_ls: false,
        }
    }
}

pub const SIG_HASH_PARENT: &str = "multiwildcard_matches_parent";
pub const SIG_SYS_GUARD: &str = "sys_guard_literal_first_segment";
pub const SIG_PUBLISH: &str = "sys_publish_unguarded";
pub const SIG_IMPORT_LS: &str = "import_no_ls_notify";

impl Flags {
    pub fn signatures(&self) -> Vec<&'static str> {
        let mut v = vec![];
        if self.hash_parent {
            v.push(SIG_HASH_PARENT);
        }
        if self.sys_mode == SysMode::Included {
            v.push(SIG_SYS_GUARD);
        }
        if self.publish_unguarded {
            v.push(SIG_PUBLISH);
        }
        if self.import_no_ls {
            v.push(SIG_IMPORT_LS);
        }
        v
    }

    /// All flag combinations to try, documented behaviour first, then deviations that are listed
    /// as open, fewest deviations first.
    pub fn candidates(open: &BTreeSet<String>) -> Vec<Flags> {
        let mut devs: Vec<&'static str> = vec![];
        for s in [SIG_HASH_PARENT, SIG_SYS_GUARD, SIG_PUBLISH, SIG_IMPORT_LS] {
            if open.contains(s) {
                devs.push(s);
            }
        }
        let mut out = vec![];
        let n = devs.len();
        let mut subsets: Vec<u32> = (0..(1u32 << n)).collect();
        subsets.sort_by_key(|m| m.count_ones());
        for m in subsets {
            let on = |s: &str| devs.iter().position(|d| *d == s).map(|i| m & (1 << i) != 0).unwrap_or(false);
            let sys_modes: Vec<SysMode> = if on(SIG_SYS_GUARD) {
                vec![SysMode::Included]
            } else {
                vec![SysMode::Skip, SysMode::SkipExceptOwn, SysMode::Refuse]
            };
            for sm in sys_modes {
                out.push(Flags {
                    sys_mode: sm,
                    hash_parent: on(SIG_HASH_PARENT),
                    publish_unguarded: on(SIG_PUBLISH),
                    import_no_ls: on(SIG_IMPORT_LS),
                });
            }
        }
        out
    }
}

#[derive(Clone, Debug, PartialEq)]
pub struct Sub {
    pub id: SubKey,
    pub pattern: Vec<Seg>,
    pub text: String,
    pub is_pattern: bool,
    pub unique: bool,
    /// the receiving end is gone (no unsubscribe yet): nothing can be observed any more; the server
    /// may or may not have noticed
    pub zombie: bool,
}

#[derive(Clone, Debug, PartialEq)]
pub struct LsSub {
    pub id: SubKey,
    pub parent: Path,
    pub zombie: bool,
}

#[derive(Clone, Debug, PartialEq, Default)]
pub struct LockSt {
    pub holder: C,
    /// waiting clients in the order of their first request, with their pending acquire indices
    pub queue: Vec<(C, Vec<usize>)>,
}

/// What the reference expects as the answer to a request.
#[derive(Clone, Debug, PartialEq)]
pub struct Expect {
    pub ok: Option<String>,
    /// acceptable error codes (empty with `ok == None` means: any error)
    pub errs: Vec<u8>,
}

impl Expect {
    pub fn ok(v: Value) -> Expect {
        Expect { ok: Some(v.to_string()), errs: vec![] }
    }
    pub fn unit() -> Expect {
        Expect { ok: Some("null".into()), errs: vec![] }
    }
    pub fn err(c: u8) -> Expect {
        Expect { ok: None, errs: vec![c] }
    }
    pub fn errs(c: &[u8]) -> Expect {
        Expect { ok: None, errs: c.to_vec() }
    }
    pub fn accepts(&self, a: &Ans) -> bool {
        match a {
            Ans::Ok(s) => self.ok.as_deref() == Some(s.as_str()),
            Ans::Err(c) => self.ok.is_none() && (self.errs.is_empty() || self.errs.contains(c)),
        }
    }
    pub fn is_err(&self) -> bool {
        self.ok.is_none()
    }
}

/// What the reference expects to be observable from one step.
#[derive(Clone, Debug, PartialEq)]
pub struct MObs {
    pub expect: Expect,
    /// Some conforming implementations may answer Ok where `expect` says error or vice versa
    /// (only used for publish to protected keys, where refusing and dropping are both fine).
    pub alt_expect: Option<Expect>,
    pub events: BTreeMap<SubKey, Vec<Vec<Ev>>>,
    pub closed: BTreeSet<SubKey>,
    pub ls_sent: BTreeMap<SubKey, Vec<String>>,
    pub ls_closed: BTreeSet<SubKey>,
    pub acq: Vec<(usize, bool)>,
    /// subscriptions of a client whose session ends in this step: whatever they receive during
    /// that step is not asserted
    pub dont_care: BTreeSet<SubKey>,
}

impl MObs {
    fn new(expect: Expect) -> MObs {
        MObs {
            expect,
            alt_expect: None,
            events: BTreeMap::new(),
            closed: BTreeSet::new(),
            ls_sent: BTreeMap::new(),
            ls_closed: BTreeSet::new(),
            acq: vec![],
            dont_care: BTreeSet::new(),
        }
    }
}

#[derive(Clone, Debug, PartialEq, Default)]
pub struct RefCore {
    pub data: BTreeMap<Path, Entry>,
    pub clients: BTreeSet<C>,
    pub subs: Vec<Sub>,
    pub ls_subs: Vec<LsSub>,
    /// what each ls subscriber was last sent
    pub ls_last: BTreeMap<SubKey, Vec<String>>,
    pub locks: BTreeMap<Path, LockSt>,
    pub spub: BTreeMap<(C, u64), String>,
    pub acq_count: usize,
}

const SYS: &str = "$SYS";

fn is_sys(path: &[String]) -> bool {
    path.first().map(|s| s == SYS).unwrap_or(false)
}

/// The `$SYS` rule for literal keys (also applied, literally, to patterns).
pub fn check_read_only(key: &str, c: C) -> Result<(), u8> {
    if key.is_empty() {
        return Err(E_EMPTY_KEY);
    }
    if c == INTERNAL {
        return Ok(());
    }
    let path: Vec<&str> = key.split('/').collect();
    if path[0] != SYS {
        return Ok(());
    }
    if path.len() <= 3 || path[1] != "clients" || path[2] != cid(c).to_string() {
        return Err(E_READ_ONLY);
    }
    if path[3] == "graveGoods" || path[3] == "lastWill" || path[3] == "clientName" {
        return Ok(());
    }
    Err(E_READ_ONLY)
}

fn is_own_entry(path: &[String], c: C) -> bool {
    path.len() >= 4
        && path[0] == SYS
        && path[1] == "clients"
        && path[2] == cid(c).to_string()
        && (path[3] == "graveGoods" || path[3] == "lastWill" || path[3] == "clientName")
}

struct Ctx<'a> {
    flags: &'a Flags,
    obs: MObs,
}

impl RefCore {
    pub fn key_string(path: &[String]) -> String {
        path.join("/")
    }

    // ------------------------------------------------------------------ reads

    pub fn get(&self, key: &str) -> Ans {
        match parse_key(key) {
            Err(e) => Ans::Err(e),
            Ok(p) => match self.data.get(&p) {
                Some(e) => Ans::ok(e.value().clone()),
                None => Ans::Err(E_NO_SUCH_VALUE),
            },
        }
    }

    pub fn cget(&self, key: &str) -> Ans {
        match parse_key(key) {
            Err(e) => Ans::Err(e),
            Ok(p) => match self.data.get(&p) {
                Some(e) => Ans::ok(json!([e.value(), e.version()])),
                None => Ans::Err(E_NO_SUCH_VALUE),
            },
        }
    }

    pub fn store_matches(&self, pattern: &[Seg], flags: &Flags) -> Vec<(Path, Value)> {
        self.data
            .iter()
            .filter(|(k, _)| matches(pattern, k, flags.hash_parent))
            .map(|(k, e)| (k.clone(), e.value().clone()))
            .collect()
    }

    pub fn pget(&self, pattern: &str, flags: &Flags) -> Ans {
        let p = parse_pattern(pattern);
        if has_inner_multi(&p) {
            return Ans::Err(E_ILLEGAL_MULTI);
        }
        let kvs = self
            .store_matches(&p, flags)
            .into_iter()
            .map(|(k, v)| (k.join("/"), v))
            .collect();
        Ans::ok(sort_kvs(kvs))
    }

    fn children(&self, parent: &[String]) -> (bool, Vec<String>) {
        let mut exists = false;
        let mut set = BTreeSet::new();
        for k in self.data.keys() {
            if k.len() >= parent.len() && k[..parent.len()] == *parent {
                exists = true;
                if k.len() > parent.len() {
                    set.insert(k[parent.len()].clone());
                }
            }
        }
        (exists, set.into_iter().collect())
    }

    pub fn ls(&self, parent: &Option<String>) -> Ans {
        match parent {
            None => Ans::ok(json!(self.children(&[]).1)),
            Some(p) => {
                let path = split(p);
                let (exists, ch) = self.children(&path);
                if exists { Ans::ok(json!(ch)) } else { Ans::Err(E_NO_SUCH_VALUE) }
            }
        }
    }

    fn ls_list(&self, parent: &[String]) -> Vec<String> {
        self.children(parent).1
    }

    /// union of the children of all parents (prefixes of stored keys) matching the pattern
    pub fn pls(&self, pattern: &str) -> Ans {
        let p = parse_pattern(pattern);
        if p.iter().any(|s| *s == Seg::Multi) {
            return Ans::Err(E_ILLEGAL_MULTI);
        }
        let mut set = BTreeSet::new();
        for k in self.data.keys() {
            if k.len() > p.len() && matches(&p, &k[..p.len()], false) {
                set.insert(k[p.len()].clone());
            }
        }
        Ans::ok(json!(set.into_iter().collect::<Vec<_>>()))
    }

    pub fn readback(&self, probe: &Probe, flags: &Flags) -> ReadBack {
        let mut rb = ReadBack {
            get: BTreeMap::new(),
            cget: BTreeMap::new(),
            pget: BTreeMap::new(),
            ls: BTreeMap::new(),
            pls: BTreeMap::new(),
            len: self.data.len(),
        };
        for k in &probe.keys {
            rb.get.insert(k.clone(), self.get(k));
            rb.cget.insert(k.clone(), self.cget(k));
        }
        for p in &probe.patterns {
            rb.pget.insert(p.clone(), self.pget(p, flags));
        }
        for p in &probe.parents {
            rb.ls.insert(p.clone().unwrap_or_else(|| "<root>".into()), self.ls(p));
        }
        for p in &probe.parent_patterns {
            rb.pls.insert(p.clone(), self.pls(p));
        }
        rb
    }

    /// The data tree in the format of the snapshot hook (no value-less leaves).
    pub fn data_tree(&self) -> Value {
        #[derive(Default)]
        struct N {
            v: Option<Value>,
            t: BTreeMap<String, N>,
        }
        fn to_json(n: &N) -> Value {
            let mut m = Map::new();
            if !n.t.is_empty() {
                let mut t = Map::new();
                for (k, c) in &n.t {
                    t.insert(k.clone(), to_json(c));
                }
                m.insert("t".into(), Value::Object(t));
            }
            if let Some(v) = &n.v {
                m.insert("v".into(), v.clone());
            }
            Value::Object(m)
        }
        let mut root = N::default();
        for (k, e) in &self.data {
            let mut cur = &mut root;
            for s in k {
                cur = cur.t.entry(s.clone()).or_default();
            }
            cur.v = Some(match e {
                Entry::Plain(v) => json!({ "p": v }),
                Entry::Cas(v, n) => json!({ "c": [v, n] }),
            });
        }
        to_json(&root)
    }

    // ------------------------------------------------------------------ notification helpers

    fn notify(&self, ctx: &mut Ctx, batch: &mut BTreeMap<SubKey, Vec<Ev>>, path: &[String], value: &Value, changed: bool, deleted: bool) {
        let key = path.join("/");
        for s in &self.subs {
            if s.zombie || !matches(&s.pattern, path, false) {
                continue;
            }
            if !changed && s.unique {
                continue;
            }
            let k = if s.is_pattern { key.clone() } else { s.text.clone() };
            let ev = if deleted { Ev::Del(k, value.to_string()) } else { Ev::Set(k, value.to_string()) };
            batch.entry(s.id).or_default().push(ev);
        }
        let _ = ctx;
    }

    fn flush_batch(ctx: &mut Ctx, batch: BTreeMap<SubKey, Vec<Ev>>) {
        for (id, evs) in batch {
            if !evs.is_empty() {
                ctx.obs.events.entry(id).or_default().push(evs);
            }
        }
    }

    /// After the data changed: send the new child list to every ls subscriber whose list changed.
    fn notify_ls(&mut self, ctx: &mut Ctx, before: &RefCore) {
        for s in &self.ls_subs {
            if s.zombie {
                continue;
            }
            let old = before.ls_list(&s.parent);
            let new = self.ls_list(&s.parent);
            if old != new {
                ctx.obs.ls_sent.insert(s.id, new.clone());
                self.ls_last.insert(s.id, new);
            }
        }
    }

    // ------------------------------------------------------------------ writes

    /// The value/CAS decision table. Returns (value existed, value changed).
    fn write(&mut self, path: &Path, new: Entry, force: bool) -> Result<bool, u8> {
        let cur = self.data.get(path);
        let (changed, entry) = match (cur, new, force) {
            (None, Entry::Plain(v), _) => (true, Entry::Plain(v)),
            (None, Entry::Cas(v, 0), _) | (None, Entry::Cas(v, _), true) => (true, Entry::Cas(v, 1)),
            (None, Entry::Cas(..), false) => return Err(E_CAS_MISMATCH),
            (Some(Entry::Plain(c)), Entry::Plain(v), _) => (*c != v, Entry::Plain(v)),
            (Some(Entry::Plain(c)), Entry::Cas(v, 0), _) | (Some(Entry::Plain(c)), Entry::Cas(v, _), true) => {
                (*c != v, Entry::Cas(v, 1))
            }
            (Some(Entry::Plain(_)), Entry::Cas(..), false) => return Err(E_CAS_MISMATCH),
            (Some(Entry::Cas(c, _)), Entry::Plain(v), true) => (*c != v, Entry::Plain(v)),
            (Some(Entry::Cas(..)), Entry::Plain(_), false) => return Err(E_CAS),
            (Some(Entry::Cas(c, cur_ver)), Entry::Cas(v, n), f) => {
                if f || *cur_ver == n {
                    match n.checked_add(1) {
                        Some(next) => (*c != v, Entry::Cas(v, next)),
                        // "raises that version by exactly one" cannot be satisfied at u64::MAX
                        None => return Err(E_CAS_MISMATCH),
                    }
                } else {
                    return Err(E_CAS_MISMATCH);
                }
            }
        };
        self.data.insert(path.clone(), entry);
        Ok(changed)
    }

    fn do_set(&mut self, ctx: &mut Ctx, c: C, key: &str, new: Entry, force: bool) -> Result<(), u8> {
        check_read_only(key, c)?;
        let path = parse_key(key)?;
        let before = self.clone();
        let value = new.value().clone();
        let changed = self.write(&path, new, force)?;
        // own graveGoods / lastWill must be well-formed
        if c != INTERNAL && malformed_registration(key, &value) {
            *self = before;
            return Err(E_IO);
        }
        self.notify_ls(ctx, &before);
        let mut batch = BTreeMap::new();
        self.notify(ctx, &mut batch, &path, &value, changed, false);
        Self::flush_batch(ctx, batch);
        Ok(())
    }

    fn do_delete(&mut self, ctx: &mut Ctx, c: C, key: &str) -> Result<Value, u8> {
        check_read_only(key, c)?;
        let path = parse_key(key)?;
        let before = self.clone();
        match self.data.remove(&path) {
            None => Err(E_NO_SUCH_VALUE),
            Some(e) => {
                self.notify_ls(ctx, &before);
                let mut batch = BTreeMap::new();
                self.notify(ctx, &mut batch, &path, e.value(), true, true);
                Self::flush_batch(ctx, batch);
                Ok(e.value().clone())
            }
        }
    }

    /// pdelete as client `c`; events of the whole request form one unordered batch.
    fn do_pdelete(&mut self, ctx: &mut Ctx, c: C, pattern: &str) -> Result<Vec<(Path, Value)>, u8> {
        check_read_only(pattern, c)?;
        let p = parse_pattern(pattern);
        if has_inner_multi(&p) {
            return Err(E_ILLEGAL_MULTI);
        }
        let wildcard_first = matches!(p.first(), Some(Seg::One) | Some(Seg::Multi));
        let reaches_sys = c != INTERNAL
            && wildcard_first
            && self.data.keys().any(|k| is_sys(k) && matches(&p, k, ctx.flags.hash_parent));
        if reaches_sys && ctx.flags.sys_mode == SysMode::Refuse {
            return Err(E_READ_ONLY);
        }
        let before = self.clone();
        let mut removed = vec![];
        let victims: Vec<Path> = self
            .data
            .keys()
            .filter(|k| matches(&p, k, ctx.flags.hash_parent))
            .filter(|k| {
                if c == INTERNAL || !wildcard_first || !is_sys(k) {
                    return true;
                }
                match ctx.flags.sys_mode {
                    SysMode::Included => true,
                    SysMode::Skip | SysMode::Refuse => false,
                    SysMode::SkipExceptOwn => is_own_entry(k, c),
                }
            })
            .cloned()
            .collect();
        for k in victims {
            if let Some(e) = self.data.remove(&k) {
                removed.push((k, e.value().clone()));
            }
        }
        self.notify_ls(ctx, &before);
        let mut batch = BTreeMap::new();
        for (k, v) in &removed {
            self.notify(ctx, &mut batch, k, v, true, true);
        }
        Self::flush_batch(ctx, batch);
        Ok(removed)
    }

    fn do_import(&mut self, ctx: &mut Ctx, doc: &str) -> Result<(), u8> {
        let parsed: Value = serde_json::from_str(doc).map_err(|_| E_SERDE)?;
        let data = parsed.get("data").ok_or(E_SERDE)?;
        let mut entries = vec![];
        collect_import(data, &mut vec![], &mut entries).ok_or(E_SERDE)?;
        let before = self.clone();
        let mut batch = BTreeMap::new();
        for (path, entry) in entries {
            let changed = self.data.get(&path) != Some(&entry);
            let value = entry.value().clone();
            self.data.insert(path.clone(), entry);
            self.notify(ctx, &mut batch, &path, &value, changed, false);
        }
        if !ctx.flags.import_no_ls {
            self.notify_ls(ctx, &before);
        }
        Self::flush_batch(ctx, batch);
        Ok(())
    }

    fn do_publish(&mut self, ctx: &mut Ctx, key: &str, value: &Value) -> Result<(), u8> {
        let path = parse_key(key)?;
        if is_sys(&path) && !ctx.flags.publish_unguarded {
            // refusing and silently dropping are both fine
            ctx.obs.alt_expect = Some(Expect { ok: None, errs: vec![] });
            return Ok(());
        }
        let mut batch = BTreeMap::new();
        self.notify(ctx, &mut batch, &path, value, true, false);
        Self::flush_batch(ctx, batch);
        Ok(())
    }

    // ------------------------------------------------------------------ locks

    fn release(&mut self, ctx: &mut Ctx, c: C, path: &Path) -> Result<(), u8> {
        let Some(lock) = self.locks.get_mut(path) else {
            return Err(E_KEY_NOT_LOCKED);
        };
        if lock.holder == c {
            if lock.queue.is_empty() {
                self.locks.remove(path);
            } else {
                let (next, pending) = lock.queue.remove(0);
                lock.holder = next;
                for a in pending {
                    ctx.obs.acq.push((a, true));
                }
            }
            Ok(())
        } else {
            // a waiting client that "releases" withdraws its pending requests
            if let Some(pos) = lock.queue.iter().position(|(q, _)| *q == c) {
                let (_, pending) = lock.queue.remove(pos);
                for a in pending {
                    ctx.obs.acq.push((a, false));
                }
            }
            Err(E_KEY_LOCKED)
        }
    }

    // ------------------------------------------------------------------ sessions

    fn sys_client_key(c: C, leaf: &str) -> String {
        format!("{SYS}/clients/{}/{leaf}", cid(c))
    }

    fn do_connect(&mut self, ctx: &mut Ctx, c: C) -> Result<(), u8> {
        if self.clients.contains(&c) {
            return Err(E_CLIENT_ID_COLLISION);
        }
        self.clients.insert(c);
        let n = self.clients.len();
        self.do_set(ctx, INTERNAL, &format!("{SYS}/clients"), Entry::Plain(json!(n)), true).ok();
        self.do_set(ctx, INTERNAL, &Self::sys_client_key(c, "protocol"), Entry::Plain(json!("UNIX")), true).ok();
        self.do_set(ctx, INTERNAL, &Self::sys_client_key(c, "address"), Entry::Plain(Value::Null), true).ok();
        Ok(())
    }

    fn do_disconnect(&mut self, ctx: &mut Ctx, c: C) {
        // publish streams
        let spub_keys: Vec<(C, u64)> = self.spub.keys().filter(|(cl, _)| *cl == c).cloned().collect();
        for k in spub_keys {
            self.spub.remove(&k);
        }
        // locks: release what it holds, withdraw what it waits for
        let paths: Vec<Path> = self.locks.keys().cloned().collect();
        for p in paths {
            let involved = self
                .locks
                .get(&p)
                .map(|l| l.holder == c || l.queue.iter().any(|(q, _)| *q == c))
                .unwrap_or(false);
            if involved {
                self.release(ctx, c, &p).ok();
            }
        }
        let gg: Option<Vec<String>> = self
            .data
            .get(&split(&Self::sys_client_key(c, "graveGoods")))
            .and_then(|e| serde_json::from_value(e.value().clone()).ok());
        let lw: Option<Vec<(String, Value)>> = self
            .data
            .get(&split(&Self::sys_client_key(c, "lastWill")))
            .and_then(|e| parse_last_will(e.value()));

        // everything the session end does to the store is one request: its events towards one
        // subscriber are compared as an unordered batch, except that burying precedes the will
        let mut first = Ctx { flags: ctx.flags, obs: MObs::new(Expect::unit()) };
        self.clients.remove(&c);
        let n = self.clients.len();
        self.do_set(&mut first, INTERNAL, &format!("{SYS}/clients"), Entry::Plain(json!(n)), true).ok();

        // subscriptions of the client end here
        let own: Vec<SubKey> = self.subs.iter().filter(|s| s.id.0 == c && !s.zombie).map(|s| s.id).collect();
        for id in &own {
            ctx.obs.closed.insert(*id);
            ctx.obs.dont_care.insert(*id);
        }
        self.subs.retain(|s| s.id.0 != c);
        let own_ls: Vec<SubKey> = self.ls_subs.iter().filter(|s| s.id.0 == c && !s.zombie).map(|s| s.id).collect();
        for id in &own_ls {
            ctx.obs.ls_closed.insert(*id);
            ctx.obs.dont_care.insert(*id);
            self.ls_last.remove(id);
        }
        self.ls_subs.retain(|s| s.id.0 != c);

        self.do_pdelete(&mut first, INTERNAL, &Self::sys_client_key(c, "#")).ok();
        if let Some(gg) = gg {
            for g in gg {
                self.do_pdelete(&mut first, c, &g).ok();
            }
        }
        let mut second = Ctx { flags: ctx.flags, obs: MObs::new(Expect::unit()) };
        if let Some(lw) = lw {
            for (k, v) in lw {
                self.do_set(&mut second, c, &k, Entry::Plain(v), true).ok();
            }
        }
        for part in [first.obs, second.obs] {
            let mut merged: BTreeMap<SubKey, Vec<Ev>> = BTreeMap::new();
            for (id, batches) in part.events {
                for b in batches {
                    merged.entry(id).or_default().extend(b);
                }
            }
            for (id, evs) in merged {
                if !own.contains(&id) {
                    ctx.obs.events.entry(id).or_default().push(evs);
                }
            }
            for (id, l) in part.ls_sent {
                if !own_ls.contains(&id) {
                    ctx.obs.ls_sent.insert(id, l);
                }
            }
        }
    }

    // ------------------------------------------------------------------ step

    /// Is the operation one the scenario may issue in this state? (No duplicate subscription
    /// ids: the statements say nothing about them.)
    pub fn enabled(&self, op: &Op) -> bool {
        match op {
            Op::Subscribe(c, tid, ..) | Op::PSubscribe(c, tid, ..) | Op::SubscribeLs(c, tid, ..) => {
                !self.subs.iter().any(|s| s.id == (*c, *tid))
                    && !self.ls_subs.iter().any(|s| s.id == (*c, *tid))
            }
            _ => true,
        }
    }

    pub fn step(&self, op: &Op, flags: &Flags) -> (MObs, RefCore) {
        let mut next = self.clone();
        let mut ctx = Ctx { flags, obs: MObs::new(Expect::unit()) };
        let res: Result<Expect, u8> = match op {
            Op::Connect(c) => next.do_connect(&mut ctx, *c).map(|_| Expect::unit()),
            Op::Disconnect(c) => {
                next.do_disconnect(&mut ctx, *c);
                Ok(Expect::unit())
            }
            Op::Set(c, k, v) => next
                .do_set(&mut ctx, *c, k, Entry::Plain(v.clone()), false)
                .map(|_| Expect::unit()),
            Op::CSet(c, k, v, ver) => next
                .do_set(&mut ctx, *c, k, Entry::Cas(v.clone(), *ver), false)
                .map(|_| Expect::unit()),
            Op::Delete(c, k) => next.do_delete(&mut ctx, *c, k).map(Expect::ok),
            Op::PDelete(c, p) => next.do_pdelete(&mut ctx, *c, p).map(|kvs| {
                Expect::ok(sort_kvs(kvs.into_iter().map(|(k, v)| (k.join("/"), v)).collect()))
            }),
            Op::Import(doc) => next.do_import(&mut ctx, doc).map(|_| Expect::unit()),
            Op::Publish(k, v) => next.do_publish(&mut ctx, k, v).map(|_| Expect::unit()),
            Op::SPubInit(c, tid, k) => check_read_only(k, *c).map(|_| {
                next.spub.insert((*c, *tid), k.clone());
                Expect::unit()
            }),
            Op::SPub(c, tid, v) => match next.spub.get(&(*c, *tid)).cloned() {
                None => Err(E_NO_PUB_STREAM),
                Some(k) => next.do_publish(&mut ctx, &k, v).map(|_| Expect::unit()),
            },
            Op::Subscribe(c, tid, k, unique, live) => {
                let pattern = parse_pattern(k);
                let literal = parse_key(k);
                if let (Err(e), false) = (&literal, *live) {
                    Err(*e)
                } else {
                    if !*live {
                        if let Ok(p) = &literal {
                            if let Some(e) = next.data.get(p) {
                                ctx.obs.events.entry((*c, *tid)).or_default().push(vec![Ev::Set(
                                    k.clone(),
                                    e.value().to_string(),
                                )]);
                            }
                        }
                    }
                    next.subs.push(Sub { id: (*c, *tid), pattern, text: k.clone(), is_pattern: false, unique: *unique, zombie: false });
                    Ok(Expect::unit())
                }
            }
            Op::PSubscribe(c, tid, p, unique, live) => {
                let pattern = parse_pattern(p);
                if has_inner_multi(&pattern) {
                    Err(E_ILLEGAL_MULTI)
                } else {
                    if !*live {
                        let snap: Vec<Ev> = next
                            .store_matches(&pattern, flags)
                            .into_iter()
                            .map(|(k, v)| Ev::Set(k.join("/"), v.to_string()))
                            .collect();
                        if !snap.is_empty() {
                            ctx.obs.events.entry((*c, *tid)).or_default().push(snap);
                        }
                    }
                    next.subs.push(Sub { id: (*c, *tid), pattern, text: p.clone(), is_pattern: true, unique: *unique, zombie: false });
                    Ok(Expect::unit())
                }
            }
            Op::Unsubscribe(c, tid) => {
                if let Some(pos) = next.subs.iter().position(|s| s.id == (*c, *tid)) {
                    let gone = next.subs.remove(pos);
                    if gone.zombie {
                        // the server may have dropped the subscriber already when a send failed: then
                        // the bookkeeping entry goes, but the answer is "not subscribed"
                        ctx.obs.alt_expect = Some(Expect::err(E_NOT_SUBSCRIBED));
                    } else {
                        ctx.obs.closed.insert((*c, *tid));
                    }
                    Ok(Expect::unit())
                } else {
                    Err(E_NOT_SUBSCRIBED)
                }
            }
            Op::SubscribeLs(c, tid, parent) => {
                let path = parent.as_deref().map(split).unwrap_or_default();
                let list = next.ls_list(&path);
                ctx.obs.ls_sent.insert((*c, *tid), list.clone());
                next.ls_last.insert((*c, *tid), list);
                next.ls_subs.push(LsSub { id: (*c, *tid), parent: path, zombie: false });
                Ok(Expect::unit())
            }
            Op::UnsubscribeLs(c, tid) => {
                if let Some(pos) = next.ls_subs.iter().position(|s| s.id == (*c, *tid)) {
                    let gone = next.ls_subs.remove(pos);
                    next.ls_last.remove(&(*c, *tid));
                    if gone.zombie {
                        ctx.obs.alt_expect = Some(Expect::err(E_NOT_SUBSCRIBED));
                    } else {
                        ctx.obs.ls_closed.insert((*c, *tid));
                    }
                    Ok(Expect::unit())
                } else {
                    Err(E_NOT_SUBSCRIBED)
                }
            }
            Op::DropReceiver(c, tid) => {
                if let Some(sub) = next.subs.iter_mut().find(|s| s.id == (*c, *tid)) {
                    sub.zombie = true;
                }
                Ok(Expect::unit())
            }
            Op::DropLsReceiver(c, tid) => {
                if let Some(sub) = next.ls_subs.iter_mut().find(|s| s.id == (*c, *tid)) {
                    sub.zombie = true;
                    next.ls_last.remove(&(*c, *tid));
                }
                Ok(Expect::unit())
            }
            Op::Lock(c, k) => parse_key(k).and_then(|path| match next.locks.get(&path) {
                None => {
                    next.locks.insert(path, LockSt { holder: *c, queue: vec![] });
                    Ok(Expect::unit())
                }
                Some(l) if l.holder == *c => Ok(Expect::unit()),
                Some(_) => Err(E_KEY_LOCKED),
            }),
            Op::AcquireLock(c, k) => parse_key(k).map(|path| {
                let idx = next.acq_count;
                next.acq_count += 1;
                match next.locks.get_mut(&path) {
                    None => {
                        next.locks.insert(path, LockSt { holder: *c, queue: vec![] });
                        ctx.obs.acq.push((idx, true));
                    }
                    Some(l) if l.holder == *c => ctx.obs.acq.push((idx, true)),
                    Some(l) => {
                        if let Some((_, pending)) = l.queue.iter_mut().find(|(q, _)| q == c) {
                            pending.push(idx);
                        } else {
                            l.queue.push((*c, vec![idx]));
                        }
                    }
                }
                Expect::ok(json!(idx))
            }),
            Op::ReleaseLock(c, k) => parse_key(k)
                .and_then(|path| next.release(&mut ctx, *c, &path))
                .map(|_| Expect::unit()),
        };
        match res {
            Ok(e) => {
                ctx.obs.expect = e;
                ctx.obs.acq.sort();
                (ctx.obs, next)
            }
            Err(code) => {
                // when several reasons apply the statements do not rank them
                let mut codes = vec![code];
                let (key, client, literal): (Option<&String>, Option<C>, bool) = match op {
                    Op::Set(c, k, _) | Op::CSet(c, k, _, _) | Op::Delete(c, k) | Op::SPubInit(c, _, k) => {
                        (Some(k), Some(*c), true)
                    }
                    Op::PDelete(c, p) => (Some(p), Some(*c), false),
                    _ => (None, None, false),
                };
                if let Op::Set(_, k, v) | Op::CSet(_, k, v, _) = op {
                    if malformed_registration(k, v) {
                        codes.push(E_IO);
                    }
                }
                if let (Some(k), Some(c)) = (key, client) {
                    if let Err(e) = check_read_only(k, c) {
                        codes.push(e);
                    }
                    if literal {
                        if !matches!(op, Op::SPubInit(..)) {
                            if let Err(e) = parse_key(k) {
                                codes.push(e);
                            }
                        }
                    } else if has_inner_multi(&parse_pattern(k)) {
                        codes.push(E_ILLEGAL_MULTI);
                        codes.push(E_MULTI_POS);
                    }
                }
                codes.sort();
                codes.dedup();
                // a refused request changes nothing — except that a waiting client's release
                // withdraws its own pending acquisitions (left open by the statement, follows
                // the implementation)
                let keep_lock_effects = matches!(op, Op::ReleaseLock(..)) && code == E_KEY_LOCKED;
                let mut obs = MObs::new(Expect::errs(&codes));
                if keep_lock_effects {
                    obs.acq = ctx.obs.acq.clone();
                    obs.acq.sort();
                    let mut n2 = self.clone();
                    n2.locks = next.locks.clone();
                    (obs, n2)
                } else {
                    (obs, self.clone())
                }
            }
        }
    }
}

/// A value written to `$SYS/clients/<id>/graveGoods|lastWill` that is not a registration.
pub fn malformed_registration(key: &str, value: &Value) -> bool {
    let segs: Vec<&str> = key.split('/').collect();
    if segs.len() != 4 || segs[0] != "$SYS" || segs[1] != "clients" {
        return false;
    }
    if value.is_null() {
        return false; // "no registration"
    }
    if segs[3] == "graveGoods" {
        serde_json::from_value::<Vec<String>>(value.clone()).is_err()
    } else if segs[3] == "lastWill" {
        parse_last_will(value).is_none()
    } else {
        false
    }
}

pub fn parse_last_will(v: &Value) -> Option<Vec<(String, Value)>> {
    let arr = v.as_array()?;
    let mut out = vec![];
    for e in arr {
        let o = e.as_object()?;
        let k = o.get("key")?.as_str()?.to_owned();
        let val = o.get("value")?.clone();
        out.push((k, val));
    }
    Some(out)
}

/// Parse the persisted/exported tree format: `{"v": entry, "t": {segment: node}}` where an entry
/// is `{"Cas":[value, version]}` or a plain value.
pub fn collect_import(node: &Value, path: &mut Vec<String>, out: &mut Vec<(Path, Entry)>) -> Option<()> {
    let o = node.as_object()?;
    if let Some(v) = o.get("v") {
        out.push((path.clone(), parse_entry(v)));
    }
    if let Some(t) = o.get("t") {
        for (k, child) in t.as_object()? {
            path.push(k.clone());
            collect_import(child, path, out)?;
            path.pop();
        }
    }
    Some(())
}

pub fn parse_entry(v: &Value) -> Entry {
    if let Some(o) = v.as_object() {
        if o.len() == 1 {
            if let Some(Value::Array(a)) = o.get("Cas") {
                if a.len() == 2 {
                    if let Some(n) = a[1].as_u64() {
                        return Entry::Cas(a[0].clone(), n);
                    }
                }
            }
        }
    }
    Entry::Plain(v.clone())
}
