//! C16 — aggregated pattern subscriptions batch events without losing or reordering them, and no
//! event waits longer than the interval. The real `PStateAggregator` on a paused clock; all
//! sequences of events and clock advances up to a depth.

use crate::{ops::*, real::*, session::*};
use mc::{Scenario, StepOut, Verdict, util::hash_str};
use serde_json::{Value, json};
use std::{collections::BTreeMap, time::Duration};
use tokio::{sync::mpsc, time::Instant};
use worterbuch::verif::{PStateAggregator, Worterbuch};
use worterbuch_common::{ClientMessage as CM, KeyValuePair, PStateEvent, ServerMessage as SM, *};

const INTERVAL_MS: u64 = 100;

#[derive(Clone, Debug)]
pub enum AStep {
    Ev(bool, &'static str),
    /// an event that repeats the key's previous value (what a non-unique subscription sees when the
    /// same value is set or published again)
    Same(bool, &'static str),
    Adv(u64),
    /// slow-client variant: the client takes one message off its channel
    Read,
    /// one event that carries 130 keys (what a pdelete of a subtree, or a burst, hands over at once)
    Big(bool),
}

pub struct AggScenario {
    pub steps: Vec<AStep>,
    /// the channel towards the client holds one message and is only read at `Read` steps (and at the
    /// end): flushes that are due while it is full have to wait, not to be skipped
    pub slow_client: bool,
}

async fn settle_short() {
    for _ in 0..12 {
        tokio::task::yield_now().await;
    }
}

impl Scenario for AggScenario {
    fn num_ops(&self) -> usize {
        self.steps.len()
    }
    fn op_json(&self, op: u16) -> Value {
        json!(format!("{:?}", self.steps[op as usize]))
    }
    fn run(&self, history: &[u16]) -> Option<StepOut> {
        block_on(async {
            let (tx, mut rx) = mpsc::channel::<SM>(if self.slow_client { 1 } else { 1000 });
            let agg = PStateAggregator::new(tx, "#".to_owned(), Duration::from_millis(INTERVAL_MS), 7, 1000, cid(0));
            let slow = self.slow_client;
            let start = Instant::now();
            // per key: inputs (kind, value, hand-in time), outputs (kind, value, arrival time)
            let mut inputs: BTreeMap<String, Vec<(bool, i64, u128)>> = BTreeMap::new();
            let mut outputs: BTreeMap<String, Vec<(bool, i64, u128)>> = BTreeMap::new();
            let mut counter = 0i64;
            let mut batches = 0usize;
            let mut violation: Option<String> = None;
            let mut collect = |rx: &mut mpsc::Receiver<SM>, outputs: &mut BTreeMap<String, Vec<(bool, i64, u128)>>, batches: &mut usize, violation: &mut Option<String>, limit: usize| {
                let now = start.elapsed().as_millis();
                let mut taken = 0;
                while taken < limit {
                    let Ok(m) = rx.try_recv() else { break };
                    taken += 1;
                    match m {
                        SM::PState(p) => {
                            if p.transaction_id != 7 || p.request_pattern != "#" {
                                *violation = Some(format!("batch with wrong envelope: {p:?}"));
                            }
                            *batches += 1;
                            let (set, kvs) = match p.event {
                                PStateEvent::KeyValuePairs(k) => (true, k),
                                PStateEvent::Deleted(k) => (false, k),
                            };
                            let mut seen = std::collections::BTreeSet::new();
                            for kv in kvs {
                                if !seen.insert(kv.key.clone()) {
                                    *violation = Some(format!("key {} twice in one batch", kv.key));
                                }
                                outputs.entry(kv.key).or_default().push((set, kv.value.as_i64().unwrap_or(-1), now));
                            }
                        }
                        other => *violation = Some(format!("unexpected message {other:?}")),
                    }
                }
            };
            let mut steps: Vec<AStep> = history.iter().map(|o| self.steps[*o as usize].clone()).collect();
            // final flush (a slow client finally reads everything)
            let own_steps = steps.len();
            steps.push(AStep::Adv(2 * INTERVAL_MS));
            if slow {
                for _ in 0..8 {
                    steps.push(AStep::Adv(INTERVAL_MS));
                }
            }
            for (si, st) in steps.iter().enumerate() {
                let drain = if !slow || si >= own_steps { usize::MAX } else { 0 };
                match st {
                    AStep::Read => {
                        collect(&mut rx, &mut outputs, &mut batches, &mut violation, 1);
                        settle_short().await;
                    }
                    AStep::Big(set) => {
                        counter += 1;
                        let kv: Vec<KeyValuePair> = (0..130).map(|i| KeyValuePair { key: format!("big/{i}"), value: json!(counter) }).collect();
                        for x in &kv {
                            inputs.entry(x.key.clone()).or_default().push((*set, counter, start.elapsed().as_millis()));
                        }
                        let ev = if *set { PStateEvent::KeyValuePairs(kv) } else { PStateEvent::Deleted(kv) };
                        if agg.aggregate(ev).await.is_err() {
                            violation = Some("aggregator refused an event".into());
                        }
                        settle_short().await;
                    }
                    AStep::Ev(set, key) | AStep::Same(set, key) => {
                        let value = if matches!(st, AStep::Same(..)) {
                            inputs.get(*key).and_then(|v| v.last()).map(|x| x.1).unwrap_or(0)
                        } else {
                            counter += 1;
                            counter
                        };
                        let kv = vec![KeyValuePair { key: key.to_string(), value: json!(value) }];
                        let ev = if *set { PStateEvent::KeyValuePairs(kv) } else { PStateEvent::Deleted(kv) };
                        inputs.entry(key.to_string()).or_default().push((*set, value, start.elapsed().as_millis()));
                        if agg.aggregate(ev).await.is_err() {
                            violation = Some("aggregator refused an event".into());
                        }
                        settle_short().await;
                    }
                    AStep::Adv(ms) => {
                        // advance in small steps so that arrival times are observed with 10 ms resolution
                        let mut left = *ms;
                        while left > 0 {
                            let d = left.min(10);
                            tokio::time::advance(Duration::from_millis(d)).await;
                            settle_short().await;
                            collect(&mut rx, &mut outputs, &mut batches, &mut violation, drain);
                            left -= d;
                        }
                    }
                }
                collect(&mut rx, &mut outputs, &mut batches, &mut violation, drain);
            }
            if violation.is_none() {
                for (k, ins) in &inputs {
                    let empty = vec![];
                    let outs = outputs.get(k).unwrap_or(&empty);
                    let a: Vec<(bool, i64)> = ins.iter().map(|x| (x.0, x.1)).collect();
                    let b: Vec<(bool, i64)> = outs.iter().map(|x| (x.0, x.1)).collect();
                    if a != b {
                        violation = Some(format!("key {k}: events handed in {a:?}, events delivered {b:?}"));
                        break;
                    }
                    for (i, o) in ins.iter().zip(outs.iter()) {
                        // (the delay bound holds "once the client connection can take it")
                        if !slow && o.2 > i.2 + INTERVAL_MS as u128 {
                            violation = Some(format!(
                                "key {k}: event #{} handed in at {} ms was delivered at {} ms (interval {INTERVAL_MS} ms)",
                                i.1, i.2, o.2
                            ));
                        }
                    }
                }
                for k in outputs.keys() {
                    if !inputs.contains_key(k) {
                        violation = Some(format!("delivered events for {k} that were never handed in"));
                    }
                }
            }
            drop(agg);
            settle_short().await;
            Some(StepOut {
                fingerprint: hash_str(&format!("{history:?}")),
                verdict: match violation {
                    Some(v) => Verdict::Violation(v),
                    None => Verdict::Ok,
                },
                class: format!("batches:{batches}"),
            })
        })
    }
}

pub fn agg_scenario() -> AggScenario {
    AggScenario {
        steps: vec![
            AStep::Ev(true, "a"),
            AStep::Ev(true, "b"),
            AStep::Ev(false, "a"),
            AStep::Ev(false, "b"),
            AStep::Same(true, "a"),
            AStep::Adv(INTERVAL_MS / 2),
            AStep::Adv(INTERVAL_MS),
        ],
        slow_client: false,
    }
}

pub fn big_batch_scenario() -> AggScenario {
    AggScenario { steps: vec![AStep::Big(true), AStep::Big(false), AStep::Ev(true, "big/7"), AStep::Adv(INTERVAL_MS)], slow_client: false }
}

pub fn slow_client_scenario() -> AggScenario {
    AggScenario {
        steps: vec![
            AStep::Ev(true, "a"),
            AStep::Ev(false, "a"),
            AStep::Ev(true, "b"),
            AStep::Same(true, "a"),
            AStep::Read,
            AStep::Adv(INTERVAL_MS),
        ],
        slow_client: true,
    }
}

// ---------------------------------------------------------------------------------------------
// session level: an aggregated and a plain psubscribe on the same pattern must deliver, per key,
// the same sequence of events

#[derive(Clone, Debug)]
pub enum SStep {
    Set(&'static str),
    Del(&'static str),
    PDel,
    Adv(u64),
    /// a burst: the core processes three writes (the same key twice, another key in between) before
    /// the subscription's forwarding task runs, so its channel holds several events at once
    Burst(&'static str, &'static str),
}

pub struct AggSessionScenario {
    pub steps: Vec<SStep>,
    pub live_only: bool,
}

impl Scenario for AggSessionScenario {
    fn num_ops(&self) -> usize {
        self.steps.len()
    }
    fn op_json(&self, op: u16) -> Value {
        json!(format!("{:?}", self.steps[op as usize]))
    }
    fn run(&self, history: &[u16]) -> Option<StepOut> {
        block_on(async {
            let mut wb = Worterbuch::with_config(base_config());
            wb.set("p/a".into(), json!(0), cid(INTERNAL), false).await.ok();
            let mut world = World::new(base_config(), wb, &[0, 1]).await;
            world.drain(0);
            let plain = CM::PSubscribe(PSubscribe { transaction_id: 1, request_pattern: "p/#".into(), unique: false, aggregate_events: None, live_only: Some(self.live_only) });
            let aggr = CM::PSubscribe(PSubscribe { transaction_id: 2, request_pattern: "p/#".into(), unique: false, aggregate_events: Some(INTERVAL_MS), live_only: Some(self.live_only) });
            world.line(0, &serde_json::to_string(&plain).expect("json")).await;
            world.line(0, &serde_json::to_string(&aggr).expect("json")).await;
            let mut per_tid: BTreeMap<u64, BTreeMap<String, Vec<String>>> = BTreeMap::new();
            let mut first_of: BTreeMap<u64, String> = BTreeMap::new();
            let mut acks: Vec<u64> = vec![];
            let mut collect = |world: &mut World, per_tid: &mut BTreeMap<u64, BTreeMap<String, Vec<String>>>, first_of: &mut BTreeMap<u64, String>, acks: &mut Vec<u64>| {
                for m in world.drain(0) {
                    match m {
                        SM::Ack(a) => acks.push(a.transaction_id),
                        SM::PState(p) => {
                            first_of.entry(p.transaction_id).or_insert_with(|| format!("{:?}", p.event));
                            let (kind, kvs) = match p.event {
                                PStateEvent::KeyValuePairs(k) => ("set", k),
                                PStateEvent::Deleted(k) => ("del", k),
                            };
                            for kv in kvs {
                                per_tid.entry(p.transaction_id).or_default().entry(kv.key).or_default().push(format!("{kind}:{}", kv.value));
                            }
                        }
                        _ => {}
                    }
                }
            };
            collect(&mut world, &mut per_tid, &mut first_of, &mut acks);
            let snapshot_unbatched = if self.live_only { true } else { first_of.get(&2).map(|s| s.contains("p/a")).unwrap_or(false) };
            let mut n = 100i64;
            let mut steps: Vec<SStep> = history.iter().map(|o| self.steps[*o as usize].clone()).collect();
            steps.push(SStep::Adv(2 * INTERVAL_MS));
            for st in &steps {
                match st {
                    SStep::Set(k) => {
                        n += 1;
                        let m = CM::Set(Set { transaction_id: n as u64, key: k.to_string(), value: json!(n) });
                        world.line(1, &serde_json::to_string(&m).expect("json")).await;
                    }
                    SStep::Del(k) => {
                        n += 1;
                        let m = CM::Delete(Delete { transaction_id: n as u64, key: k.to_string() });
                        world.line(1, &serde_json::to_string(&m).expect("json")).await;
                    }
                    SStep::PDel => {
                        n += 1;
                        let m = CM::PDelete(PDelete { transaction_id: n as u64, request_pattern: "p/?".into(), quiet: Some(true) });
                        world.line(1, &serde_json::to_string(&m).expect("json")).await;
                    }
                    SStep::Adv(ms) => {
                        tokio::time::advance(Duration::from_millis(*ms)).await;
                        settle().await;
                    }
                    SStep::Burst(k, other) => {
                        use worterbuch_common::WbApi;
                        n += 3;
                        let api = world.api.clone();
                        // all three requests are in the core's queue before it runs
                        let (a, b, c) = tokio::join!(
                            api.set(k.to_string(), json!(n - 2), cid(1)),
                            api.set(other.to_string(), json!(n - 1), cid(1)),
                            api.set(k.to_string(), json!(n), cid(1)),
                        );
                        if a.is_err() || b.is_err() || c.is_err() {
                            panic!("MACHINERY: burst writes refused");
                        }
                        settle().await;
                    }
                }
                collect(&mut world, &mut per_tid, &mut first_of, &mut acks);
            }
            let plain_stream = per_tid.get(&1).cloned().unwrap_or_default();
            let aggr_stream = per_tid.get(&2).cloned().unwrap_or_default();
            let mut violation = None;
            if acks != vec![1, 2] {
                violation = Some(format!("subscriptions not acknowledged: {acks:?}"));
            } else if !snapshot_unbatched {
                violation = Some("the aggregated subscription did not get its snapshot first and unbatched".into());
            } else if plain_stream != aggr_stream {
                violation = Some(format!("per-key streams differ: plain={plain_stream:?} aggregated={aggr_stream:?}"));
            }
            world.close(0).await;
            world.close(1).await;
            drop(world);
            settle().await;
            Some(StepOut {
                fingerprint: hash_str(&format!("{history:?}")),
                verdict: match violation {
                    Some(v) => Verdict::Violation(v),
                    None => Verdict::Ok,
                },
                class: format!("events:{}", plain_stream.values().map(Vec::len).sum::<usize>()),
            })
        })
    }
}

pub fn session_scenario(live_only: bool) -> AggSessionScenario {
    AggSessionScenario {
        steps: vec![
            SStep::Set("p/a"),
            SStep::Set("p/b"),
            SStep::Del("p/a"),
            SStep::PDel,
            SStep::Adv(INTERVAL_MS / 2),
            SStep::Adv(INTERVAL_MS),
            SStep::Burst("p/a", "p/b"),
        ],
        live_only,
    }
}
