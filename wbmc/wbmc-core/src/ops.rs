//! Operation language and observation format shared by the real-core driver and the reference
//! model.

use serde::Serialize;
use serde_json::{Value, json};
use std::collections::{BTreeMap, BTreeSet};
use uuid::Uuid;
use worterbuch_common::INTERNAL_CLIENT_ID;

/// Client index; `INTERNAL` is the server's own client.
pub type C = u8;
pub const INTERNAL: C = 255;

pub fn cid(c: C) -> Uuid {
    if c == INTERNAL {
        INTERNAL_CLIENT_ID
    } else {
        Uuid::from_u128(0x0000_0000_0000_4000_8000_0000_0000_1000 + c as u128)
    }
}

pub fn cname(c: C) -> String {
    if c == INTERNAL {
        "internal".to_owned()
    } else {
        ((b'A' + c) as char).to_string()
    }
}

#[derive(Clone, Debug, PartialEq, Serialize)]
pub enum Op {
    Connect(C),
    Disconnect(C),
    Set(C, String, Value),
    CSet(C, String, Value, u64),
    Delete(C, String),
    PDelete(C, String),
    Import(String),
    Publish(String, Value),
    SPubInit(C, u64, String),
    SPub(C, u64, Value),
    Subscribe(C, u64, String, bool, bool),
    PSubscribe(C, u64, String, bool, bool),
    Unsubscribe(C, u64),
    SubscribeLs(C, u64, Option<String>),
    UnsubscribeLs(C, u64),
    /// the client side of a subscription goes away without an unsubscribe (its receiver is dropped):
    /// the server notices at its next attempt to send and cleans up lazily
    DropReceiver(C, u64),
    DropLsReceiver(C, u64),
    Lock(C, String),
    AcquireLock(C, String),
    ReleaseLock(C, String),
}

impl Op {
    pub fn kind(&self) -> &'static str {
        match self {
            Op::Connect(..) => "connect",
            Op::Disconnect(..) => "disconnect",
            Op::Set(..) => "set",
            Op::CSet(..) => "cset",
            Op::Delete(..) => "delete",
            Op::PDelete(..) => "pdelete",
            Op::Import(..) => "import",
            Op::Publish(..) => "publish",
            Op::SPubInit(..) => "spubInit",
            Op::SPub(..) => "spub",
            Op::Subscribe(..) => "subscribe",
            Op::PSubscribe(..) => "psubscribe",
            Op::Unsubscribe(..) => "unsubscribe",
            Op::SubscribeLs(..) => "subscribeLs",
            Op::UnsubscribeLs(..) => "unsubscribeLs",
            Op::DropReceiver(..) => "dropReceiver",
            Op::DropLsReceiver(..) => "dropLsReceiver",
            Op::Lock(..) => "lock",
            Op::AcquireLock(..) => "acquireLock",
            Op::ReleaseLock(..) => "releaseLock",
        }
    }

    pub fn to_json(&self) -> Value {
        json!(self)
    }
}

/// Answer of a request: payload in canonical form, or the numeric protocol error code.
#[derive(Clone, Debug, PartialEq, Eq, PartialOrd, Ord, Serialize)]
pub enum Ans {
    Ok(String),
    Err(u8),
}

impl Ans {
    pub fn ok(v: Value) -> Ans {
        Ans::Ok(v.to_string())
    }
    pub fn unit() -> Ans {
        Ans::Ok("null".to_owned())
    }
    pub fn class(&self) -> String {
        match self {
            Ans::Ok(_) => "Ok".to_owned(),
            Ans::Err(c) => format!("E{c}"),
        }
    }
    pub fn is_err(&self) -> bool {
        matches!(self, Ans::Err(_))
    }
}

/// One event as seen by a subscription (key subscriptions carry their own key).
#[derive(Clone, Debug, PartialEq, Eq, PartialOrd, Ord, Serialize)]
pub enum Ev {
    Set(String, String),
    Del(String, String),
}

pub type SubKey = (C, u64);

/// Everything observable from one step.
#[derive(Clone, Debug, Default, PartialEq, Serialize)]
pub struct Obs {
    pub answer: Option<Ans>,
    /// events received per value/pattern subscription in this step; the reference emits them
    /// as a list of unordered batches, the implementation as a flat list
    pub events: BTreeMap<SubKey, Vec<Vec<Ev>>>,
    /// value/pattern subscriptions whose channel is closed after this step
    pub closed: BTreeSet<SubKey>,
    /// last child list received by each live ls subscription in this step (sorted)
    pub ls_last: BTreeMap<SubKey, Vec<String>>,
    /// number of lists received per ls subscription in this step
    pub ls_count: BTreeMap<SubKey, usize>,
    pub ls_closed: BTreeSet<SubKey>,
    /// acquire-lock requests resolved in this step: (acquire index, granted?)
    pub acq: Vec<(usize, bool)>,
}

pub fn sort_kvs(mut kvs: Vec<(String, Value)>) -> Value {
    kvs.sort_by(|a, b| a.0.cmp(&b.0).then(a.1.to_string().cmp(&b.1.to_string())));
    Value::Array(kvs.into_iter().map(|(k, v)| json!([k, v])).collect())
}

pub fn sort_strs(mut v: Vec<String>) -> Value {
    v.sort();
    json!(v)
}

/// Compare a flat list of implementation events with the reference's list of unordered batches.
pub fn events_match(flat: &[Ev], batches: &[Vec<Ev>]) -> bool {
    let total: usize = batches.iter().map(Vec::len).sum();
    if total != flat.len() {
        return false;
    }
    let mut i = 0;
    for b in batches {
        let mut got: Vec<Ev> = flat[i..i + b.len()].to_vec();
        let mut want = b.clone();
        got.sort();
        want.sort();
        if got != want {
            return false;
        }
        i += b.len();
    }
    true
}

/// Result of a complete read-back of the store through the public read operations.
#[derive(Clone, Debug, PartialEq, Serialize)]
pub struct ReadBack {
    pub get: BTreeMap<String, Ans>,
    pub cget: BTreeMap<String, Ans>,
    pub pget: BTreeMap<String, Ans>,
    pub ls: BTreeMap<String, Ans>,
    pub pls: BTreeMap<String, Ans>,
    pub len: usize,
}

impl ReadBack {
    pub fn diff(&self, other: &ReadBack) -> String {
        let mut out = vec![];
        let cmp = |name: &str, a: &BTreeMap<String, Ans>, b: &BTreeMap<String, Ans>, out: &mut Vec<String>| {
            for (k, va) in a {
                let vb = b.get(k);
                if Some(va) != vb {
                    out.push(format!("{name}({k:?}): impl={va:?} reference={vb:?}"));
                }
            }
        };
        cmp("get", &self.get, &other.get, &mut out);
        cmp("cget", &self.cget, &other.cget, &mut out);
        cmp("pget", &self.pget, &other.pget, &mut out);
        cmp("ls", &self.ls, &other.ls, &mut out);
        cmp("pls", &self.pls, &other.pls, &mut out);
        if self.len != other.len {
            out.push(format!("len: impl={} reference={}", self.len, other.len));
        }
        out.truncate(6);
        out.join("; ")
    }
}

/// What the read-back asks.
#[derive(Clone, Debug, Default)]
pub struct Probe {
    pub keys: Vec<String>,
    pub patterns: Vec<String>,
    /// `None` = root
    pub parents: Vec<Option<String>>,
    pub parent_patterns: Vec<String>,
}
