//! Deterministic in-process sessions: the real core task (the body of `run_in_regular_mode`), the
//! real `Proto` per session, one line at a time, on a paused current-thread runtime.
//!
//! `World`  – the implementation side.
//! `PModel` – the protocol table on top of `RefCore`.
//! `SessionScenario` – explorer scenario comparing the two (C13, C17).

use crate::{model::*, ops::*, real::*};
use mc::{Scenario, StepOut, Verdict, util::hash_str};
use serde_json::{Value, json};
use std::collections::{BTreeMap, BTreeSet};
use tokio::sync::{mpsc, oneshot};
use worterbuch::{
    Config,
    server::CloneableWbApi,
    verif::{JwtClaims, Proto, WbFunction, Worterbuch},
};
use worterbuch_common::{
    ClientMessage as CM, PStateEvent, Protocol, ServerMessage as SM, StateEvent, WbApi,
};

// ------------------------------------------------------------------------------------ world

pub struct Sess {
    pub c: C,
    pub proto: Proto,
    pub rx: mpsc::Receiver<SM>,
    pub authorized: Option<JwtClaims>,
    pub alive: bool,
}

pub struct World {
    pub api: CloneableWbApi,
    pub core: tokio::task::JoinHandle<()>,
    snap_tx: mpsc::Sender<oneshot::Sender<Value>>,
    pub sessions: Vec<Sess>,
    pub config: Config,
}

pub async fn settle() {
    for _ in 0..24 {
        tokio::task::yield_now().await;
    }
}

impl World {
    pub async fn new(config: Config, wb: Worterbuch, clients: &[C]) -> World {
        let (api_tx, mut api_rx) = mpsc::channel::<WbFunction>(config.channel_buffer_size);
        let (snap_tx, mut snap_rx) = mpsc::channel::<oneshot::Sender<Value>>(1);
        let api = CloneableWbApi::new(api_tx, config.clone());
        let mut wb = wb;
        let core = tokio::spawn(async move {
            loop {
                tokio::select! {
                    biased;
                    Some(tx) = snap_rx.recv() => { tx.send(worterbuch::verif::snapshot(&wb)).ok(); }
                    f = api_rx.recv() => match f {
                        Some(f) => worterbuch::verif::process_api_call(&mut wb, f).await,
                        None => break,
                    },
                }
            }
        });
        let mut w = World { api, core, snap_tx, sessions: vec![], config };
        for c in clients {
            w.open(*c).await;
        }
        w
    }

    /// What `serve()` does before its loop: register the client, create the protocol handler.
    pub async fn open(&mut self, c: C) -> bool {
        let ok = self.api.connected(cid(c), None, Protocol::UNIX).await.is_ok();
        let (tx, rx) = mpsc::channel(self.config.channel_buffer_size);
        let auth_required = self.config.auth_token_key.is_some();
        let proto = Proto::new(cid(c), tx, auth_required, self.config.clone(), self.api.clone());
        self.sessions.push(Sess { c, proto, rx, authorized: None, alive: ok });
        if !ok {
            // serve() skips the loop but still reports the disconnect
            self.api.disconnected(cid(c), None).await.ok();
        }
        settle().await;
        ok
    }

    /// One line through the real protocol handler; returns false if the session ended.
    pub async fn line(&mut self, s: usize, line: &str) -> bool {
        let sess = &mut self.sessions[s];
        assert!(sess.alive, "MACHINERY: line for a closed session");
        let keep = matches!(
            sess.proto.process_incoming_message(line, &mut sess.authorized).await,
            Ok(true)
        );
        if !keep {
            self.close(s).await;
        }
        settle().await;
        keep
    }

    /// What `serve()` does after its loop.
    pub async fn close(&mut self, s: usize) {
        let sess = &mut self.sessions[s];
        if sess.alive {
            sess.alive = false;
            self.api.disconnected(cid(sess.c), None).await.ok();
            settle().await;
        }
    }

    pub fn drain(&mut self, s: usize) -> Vec<SM> {
        let mut out = vec![];
        while let Ok(m) = self.sessions[s].rx.try_recv() {
            out.push(m);
        }
        out
    }

    pub fn core_alive(&self) -> bool {
        !self.core.is_finished()
    }

    pub async fn snapshot(&self) -> Option<Value> {
        let (tx, rx) = oneshot::channel();
        self.snap_tx.send(tx).await.ok()?;
        rx.await.ok()
    }
}

// ------------------------------------------------------------------------------------ tokens

/// Canonical token of one server message (PState messages yield one token per key/value pair).
pub fn tokens(m: &SM) -> Vec<String> {
    match m {
        SM::Welcome(_) => vec!["welcome".into()],
        SM::Authorized(_) => vec!["authorized".into()],
        SM::Ack(_) => vec!["ack".into()],
        SM::Err(e) => vec![format!("err:{}", e.error_code.clone() as u8)],
        SM::State(s) => match &s.event {
            StateEvent::Value(v) => vec![format!("val:{v}")],
            StateEvent::Deleted(v) => vec![format!("del:{v}")],
        },
        SM::CState(c) => vec![format!("cstate:{}:{}", c.event.value, c.event.version)],
        SM::PState(p) => match &p.event {
            PStateEvent::KeyValuePairs(kvs) if kvs.is_empty() => vec!["pempty:set".into()],
            PStateEvent::Deleted(kvs) if kvs.is_empty() => vec!["pempty:del".into()],
            PStateEvent::KeyValuePairs(kvs) => kvs.iter().map(|kv| format!("set:{}={}", kv.key, kv.value)).collect(),
            PStateEvent::Deleted(kvs) => kvs.iter().map(|kv| format!("del:{}={}", kv.key, kv.value)).collect(),
        },
        SM::LsState(l) => {
            let mut c = l.children.clone();
            c.sort();
            vec![format!("ls:{}", json!(c))]
        }
    }
}

#[derive(Clone, Debug, Default, PartialEq)]
pub struct ExpTid {
    /// ordered list of unordered batches of tokens; a token "err:{a,b}" accepts any listed code
    pub seq: Vec<Vec<String>>,
    /// answer to a non-subscription request: must arrive as exactly one message
    pub single_message: bool,
    /// ls subscription rule: (list the reference sent in this step, list the subscriber holds)
    pub ls: Option<(Option<Vec<String>>, Vec<String>)>,
    /// subscription stream: empty-PState markers are neither required nor forbidden
    pub is_stream: bool,
}

fn tok_matches(want: &str, got: &str) -> bool {
    if let Some(alts) = want.strip_prefix("oneof:") {
        return alts.split("||").any(|a| tok_matches(a, got));
    }
    if let Some(rest) = want.strip_prefix("err:{") {
        let set = rest.trim_end_matches('}');
        if let Some(code) = got.strip_prefix("err:") {
            return set.is_empty() || set.split(',').any(|c| c == code);
        }
        return false;
    }
    want == got
}

/// Compare the messages one session received in one step (grouped by transaction id, order
/// preserved per id) with the expectation.
pub fn compare_session(got: &[SM], want: &BTreeMap<u64, ExpTid>, who: &str) -> Result<(), String> {
    let mut by_tid: BTreeMap<u64, Vec<&SM>> = BTreeMap::new();
    for m in got {
        let Some(tid) = m.transaction_id() else { continue };
        by_tid.entry(tid).or_default().push(m);
    }
    let tids: BTreeSet<u64> = by_tid.keys().chain(want.keys()).cloned().collect();
    for tid in tids {
        let empty = vec![];
        let msgs = by_tid.get(&tid).unwrap_or(&empty);
        let default = ExpTid::default();
        let exp = want.get(&tid).unwrap_or(&default);
        let mut toks: Vec<String> = vec![];
        let mut ls_lists: Vec<String> = vec![];
        for m in msgs {
            for t in tokens(m) {
                if t.starts_with("ls:") && exp.ls.is_some() {
                    ls_lists.push(t);
                } else if exp.is_stream && t.starts_with("pempty:") {
                    // not asserted
                } else {
                    toks.push(t);
                }
            }
        }
        // (the same acquire-lock line sent twice has two answers with the same id)
        if exp.single_message && msgs.len() != exp.seq.len() {
            return Err(format!("{who}: request {tid} was answered by {} messages instead of {}: {:?}", msgs.len(), exp.seq.len(), msgs));
        }
        let total: usize = exp.seq.iter().map(Vec::len).sum();
        let mut ok = total == toks.len();
        if ok {
            let mut i = 0;
            for b in &exp.seq {
                let mut got_b: Vec<&String> = toks[i..i + b.len()].iter().collect();
                let mut want_b: Vec<&String> = b.iter().collect();
                got_b.sort();
                want_b.sort();
                // error sets sort differently from concrete codes: match greedily instead
                let mut used = vec![false; got_b.len()];
                for w in &want_b {
                    let mut found = false;
                    for (j, g) in got_b.iter().enumerate() {
                        if !used[j] && tok_matches(w, g) {
                            used[j] = true;
                            found = true;
                            break;
                        }
                    }
                    if !found {
                        ok = false;
                    }
                }
                i += b.len();
            }
        }
        if !ok {
            return Err(format!("{who}: messages with transaction id {tid}: impl={toks:?} reference={:?}", exp.seq));
        }
        if let Some((sent, current)) = &exp.ls {
            let fmt = |l: &Vec<String>| format!("ls:{}", json!(l));
            match (ls_lists.last(), sent) {
                (Some(l), Some(s)) if *l == fmt(s) => {}
                (None, None) => {}
                (Some(l), None) if *l == fmt(current) => {}
                (l, s) => return Err(format!("{who}: ls subscription {tid}: impl last={l:?} reference sent={s:?} current={current:?}")),
            }
        }
    }
    Ok(())
}

// ------------------------------------------------------------------------------------ model

#[derive(Clone, Debug, PartialEq)]
pub struct SessM {
    pub c: C,
    pub alive: bool,
    pub v0: bool,
    /// acquire-lock requests still waiting: acquire index -> transaction id
    pub pending_acq: BTreeMap<usize, u64>,
}

#[derive(Clone, Debug, PartialEq)]
pub struct PModel {
    pub core: RefCore,
    pub sessions: Vec<SessM>,
}

/// Expected messages per session index.
pub type Expected = BTreeMap<usize, BTreeMap<u64, ExpTid>>;

fn err_tok(codes: &[u8]) -> String {
    format!("err:{{{}}}", codes.iter().map(|c| c.to_string()).collect::<Vec<_>>().join(","))
}

impl PModel {
    pub fn new(clients: &[C]) -> (PModel, ()) {
        let mut core = RefCore::default();
        let doc = Flags::default();
        let mut sessions = vec![];
        for c in clients {
            let (_, next) = core.step(&Op::Connect(*c), &doc);
            core = next;
            sessions.push(SessM { c: *c, alive: true, v0: false, pending_acq: BTreeMap::new() });
        }
        (PModel { core, sessions }, ())
    }

    fn sess_of(&self, c: C) -> Option<usize> {
        self.sessions.iter().position(|s| s.c == c && s.alive)
    }

    /// Distribute what a core step makes observable onto the sessions.
    fn spread(&mut self, m: &MObs, exp: &mut Expected) {
        for (id, batches) in &m.events {
            if m.dont_care.contains(id) {
                continue;
            }
            let Some(s) = self.sess_of(id.0) else { continue };
            let is_pattern = self.core.subs.iter().find(|x| x.id == *id).map(|x| x.is_pattern).unwrap_or(true);
            let e = exp.entry(s).or_default().entry(id.1).or_default();
            e.is_stream = true;
            for b in batches {
                e.seq.push(
                    b.iter()
                        .map(|ev| match (ev, is_pattern) {
                            (Ev::Set(k, v), true) => format!("set:{k}={v}"),
                            (Ev::Del(k, v), true) => format!("del:{k}={v}"),
                            (Ev::Set(_, v), false) => format!("val:{v}"),
                            (Ev::Del(_, v), false) => format!("del:{v}"),
                        })
                        .collect(),
                );
            }
        }
        for (id, list) in &m.ls_sent {
            if m.dont_care.contains(id) {
                continue;
            }
            let Some(s) = self.sess_of(id.0) else { continue };
            let e = exp.entry(s).or_default().entry(id.1).or_default();
            let cur = self.core.ls_last.get(id).cloned().unwrap_or_default();
            e.ls = Some((Some(list.clone()), cur));
        }
        for (idx, granted) in &m.acq {
            for (si, s) in self.sessions.iter_mut().enumerate() {
                if let Some(tid) = s.pending_acq.remove(idx) {
                    if s.alive {
                        let e = exp.entry(si).or_default().entry(tid).or_default();
                        e.seq.push(vec![if *granted { "ack".into() } else { format!("err:{E_LOCK_CANCELLED}") }]);
                        e.single_message = true;
                    }
                }
            }
        }
    }

    /// ls subscriptions that may receive duplicates of their current list at any time; value and
    /// pattern subscriptions whose empty-batch markers are not asserted
    fn allow_ls_dups(&self, exp: &mut Expected) {
        for sub in &self.core.subs {
            if let Some(s) = self.sess_of(sub.id.0) {
                exp.entry(s).or_default().entry(sub.id.1).or_default().is_stream = true;
            }
        }
        for l in &self.core.ls_subs {
            if let Some(s) = self.sess_of(l.id.0) {
                let e = exp.entry(s).or_default().entry(l.id.1).or_default();
                if e.ls.is_none() {
                    e.ls = Some((None, self.core.ls_last.get(&l.id).cloned().unwrap_or_default()));
                }
            }
        }
    }

    pub fn close(&self, s: usize, flags: &Flags) -> (Expected, PModel) {
        let mut next = self.clone();
        let mut exp = Expected::new();
        if next.sessions[s].alive {
            next.sessions[s].alive = false;
            next.sessions[s].pending_acq.clear();
            let c = next.sessions[s].c;
            let (m, core) = next.core.step(&Op::Disconnect(c), flags);
            next.core = core;
            next.spread(&m, &mut exp);
        }
        next.allow_ls_dups(&mut exp);
        (exp, next)
    }

    /// One well-formed client message on session `s`.
    pub fn message(&self, s: usize, msg: &CM, flags: &Flags) -> (Expected, PModel) {
        let mut next = self.clone();
        let mut exp = Expected::new();
        let c = next.sessions[s].c;
        let v0 = next.sessions[s].v0;
        let tid = msg.transaction_id().unwrap_or(0);
        let opens_stream = matches!(msg, CM::Subscribe(_) | CM::PSubscribe(_) | CM::SubscribeLs(_));
        let answer = |exp: &mut Expected, toks: Vec<String>| {
            let e = exp.entry(s).or_default().entry(tid).or_default();
            e.seq.insert(0, toks);
            e.single_message = !opens_stream;
        };
        let read_answer = |a: Ans, f: &dyn Fn(&str) -> Vec<String>| -> Vec<String> {
            match a {
                Ans::Ok(payload) => f(&payload),
                Ans::Err(c) => vec![err_tok(&[c])],
            }
        };
        let v1_only = matches!(msg, CM::CGet(_) | CM::CSet(_) | CM::Lock(_) | CM::AcquireLock(_) | CM::ReleaseLock(_));
        if matches!(msg, CM::Transform(_)) || (v0 && v1_only) {
            answer(&mut exp, vec![err_tok(&[E_NOT_IMPLEMENTED])]);
            next.allow_ls_dups(&mut exp);
            return (exp, next);
        }
        let op: Option<Op> = match msg {
            CM::ProtocolSwitchRequest(p) => {
                if p.version <= 1 {
                    next.sessions[s].v0 = p.version == 0;
                    answer(&mut exp, vec!["ack".into()]);
                }
                None
            }
            CM::AuthorizationRequest(_) => None,
            CM::Get(g) => {
                let a = next.core.get(&g.key);
                answer(&mut exp, read_answer(a, &|p| vec![format!("val:{p}")]));
                None
            }
            CM::CGet(g) => {
                let a = next.core.cget(&g.key);
                answer(
                    &mut exp,
                    read_answer(a, &|p| {
                        let v: Value = serde_json::from_str(p).unwrap_or_default();
                        vec![format!("cstate:{}:{}", v[0], v[1])]
                    }),
                );
                None
            }
            CM::PGet(g) => {
                let a = next.core.pget(&g.request_pattern, flags);
                answer(&mut exp, read_answer(a, &|p| kv_tokens(p, "set")));
                None
            }
            CM::Ls(l) => {
                let a = next.core.ls(&l.parent);
                answer(&mut exp, read_answer(a, &|p| vec![format!("ls:{p}")]));
                None
            }
            CM::PLs(l) => {
                let a = match &l.parent_pattern {
                    None => next.core.ls(&None),
                    Some(p) => next.core.pls(p),
                };
                let mut toks = read_answer(a, &|p| vec![format!("ls:{p}")]);
                // the statements do not say what a multi-level wildcard means in a parent pattern: the
                // server refuses it where its traversal reaches it and finds no parent otherwise
                if l.parent_pattern.as_deref().is_some_and(|p| p.split('/').any(|s| s == "#")) {
                    toks = vec![format!("oneof:{}||ls:[]", toks[0])];
                }
                answer(&mut exp, toks);
                None
            }
            CM::Set(m) => Some(Op::Set(c, m.key.clone(), m.value.clone())),
            CM::CSet(m) => Some(Op::CSet(c, m.key.clone(), m.value.clone(), m.version)),
            CM::SPubInit(m) => Some(Op::SPubInit(c, m.transaction_id, m.key.clone())),
            CM::SPub(m) => Some(Op::SPub(c, m.transaction_id, m.value.clone())),
            CM::Publish(m) => Some(Op::Publish(m.key.clone(), m.value.clone())),
            CM::Subscribe(m) => Some(Op::Subscribe(c, m.transaction_id, m.key.clone(), m.unique, m.live_only.unwrap_or(false))),
            CM::PSubscribe(m) => Some(Op::PSubscribe(c, m.transaction_id, m.request_pattern.clone(), m.unique, m.live_only.unwrap_or(false))),
            CM::Unsubscribe(m) => Some(Op::Unsubscribe(c, m.transaction_id)),
            CM::Delete(m) => Some(Op::Delete(c, m.key.clone())),
            CM::PDelete(m) => Some(Op::PDelete(c, m.request_pattern.clone())),
            CM::SubscribeLs(m) => Some(Op::SubscribeLs(c, m.transaction_id, m.parent.clone())),
            CM::UnsubscribeLs(m) => Some(Op::UnsubscribeLs(c, m.transaction_id)),
            CM::Lock(m) => Some(Op::Lock(c, m.key.clone())),
            CM::AcquireLock(m) => Some(Op::AcquireLock(c, m.key.clone())),
            CM::ReleaseLock(m) => Some(Op::ReleaseLock(c, m.key.clone())),
            CM::Transform(_) => None,
        };
        if let Some(op) = op {
            let (m, core) = next.core.step(&op, flags);
            next.core = core;
            // terminal answer
            let mut accept: Vec<String> = vec![];
            let mut codes: Vec<u8> = vec![];
            for e in [Some(&m.expect), m.alt_expect.as_ref()].into_iter().flatten() {
                match &e.ok {
                    Some(payload) => accept.push(payload.clone()),
                    None => {
                        if e.errs.is_empty() {
                            codes.extend(0..=255u8);
                        } else {
                            codes.extend(e.errs.iter());
                        }
                    }
                }
            }
            let is_acquire = matches!(op, Op::AcquireLock(..));
            if let Some(payload) = accept.first() {
                if codes.is_empty() {
                    let toks = match &op {
                        Op::Delete(..) => vec![format!("del:{payload}")],
                        Op::PDelete(..) => {
                            if matches!(msg, CM::PDelete(p) if p.quiet.unwrap_or(false)) {
                                vec!["pempty:del".into()]
                            } else {
                                kv_tokens(payload, "del")
                            }
                        }
                        Op::AcquireLock(..) => {
                            // answered when (and only when) the client becomes the holder
                            let idx: usize = payload.parse().unwrap_or(usize::MAX);
                            next.sessions[s].pending_acq.insert(idx, tid);
                            vec![]
                        }
                        _ => vec!["ack".into()],
                    };
                    if !is_acquire {
                        answer(&mut exp, toks);
                    }
                } else {
                    // both an acknowledgement and a refusal are fine (publish to a protected key)
                    answer(&mut exp, vec![format!("ackorerr")]);
                }
            } else {
                answer(&mut exp, vec![err_tok(&codes)]);
            }
            next.spread(&m, &mut exp);
        }
        next.allow_ls_dups(&mut exp);
        (exp, next)
    }
}

fn kv_tokens(payload: &str, kind: &str) -> Vec<String> {
    let v: Value = serde_json::from_str(payload).unwrap_or_default();
    let arr = v.as_array().cloned().unwrap_or_default();
    if arr.is_empty() {
        return vec![format!("pempty:{kind}")];
    }
    arr.iter()
        .map(|kv| format!("{kind}:{}={}", kv[0].as_str().unwrap_or(""), kv[1]))
        .collect()
}

// ------------------------------------------------------------------------------------ scenario

#[derive(Clone, Debug)]
pub enum Line {
    /// a well-formed message (sent as its JSON encoding)
    Msg(CM),
    /// raw text; `valid` says whether the server can decode it into a client message
    Raw(String),
}

pub struct SessionScenario {
    pub property: String,
    pub clients: Vec<C>,
    /// alphabet: (session index, line)
    pub lines: Vec<(usize, Line)>,
    pub candidates: Vec<Flags>,
    /// session whose answers are checked even when `check_all` is false (C17's witness)
    pub check_all: bool,
    pub witness: Option<usize>,
    /// fixed script run by the witness after every history (C17)
    pub witness_script: Vec<CM>,
    pub dedup: bool,
    /// deviation switches the reference may use without the step being reported: findings of other
    /// properties that concern only the requesting session's own answers (C17 asserts liveness and
    /// the other sessions, C08 reports these)
    pub tolerated: std::collections::BTreeSet<String>,
}

impl SessionScenario {
    fn line_text(l: &Line) -> String {
        match l {
            Line::Msg(m) => serde_json::to_string(m).expect("encode"),
            Line::Raw(s) => s.clone(),
        }
    }

    fn decode(l: &Line) -> Option<CM> {
        match l {
            Line::Msg(m) => Some(m.clone()),
            Line::Raw(s) => serde_json::from_str::<Option<CM>>(s).ok().flatten(),
        }
    }

    async fn step(
        &self,
        world: &mut World,
        model: &PModel,
        s: usize,
        line: &Line,
    ) -> Result<(PModel, Flags), String> {
        let text = Self::line_text(line);
        let kept = world.line(s, &text).await;
        if !world.core_alive() {
            return Err(format!(
                "the core task ended while processing {text:?} from session {s}: {}",
                mc::util::take_last_panic().unwrap_or_default()
            ));
        }
        let outputs: Vec<Vec<SM>> = (0..world.sessions.len()).map(|i| world.drain(i)).collect();
        let snap = world.snapshot().await.ok_or("the core no longer answers")?;
        let decoded = Self::decode(line);
        let mut first_err = String::new();
        for f in &self.candidates {
            let (mut exp, mut next) = match &decoded {
                Some(m) => model.message(s, m, f),
                None => model.close(s, f),
            };
            // a request the server must refuse to continue with (undecodable line) ends the
            // session; a decodable one never does
            // (handshake messages — authorization, protocol switch to an unknown version — may)
            let handshake = match &decoded {
                Some(CM::AuthorizationRequest(_)) => true,
                Some(CM::ProtocolSwitchRequest(p)) => p.version > 1,
                _ => false,
            };
            let must_keep = decoded.is_some() && !handshake;
            let r = (|| {
                if must_keep && !kept {
                    return Err(format!("session {s} was closed by the server after the well-formed request {text}"));
                }
                if !must_keep && kept && decoded.is_none() {
                    return Err(format!("session {s} survived the undecodable line {text:?}"));
                }
                if !kept && decoded.is_some() {
                    let (e2, n2) = next.close(s, f);
                    for (k, v) in e2 {
                        for (t, x) in v {
                            exp.entry(k).or_default().insert(t, x);
                        }
                    }
                    next = n2;
                }
                for (i, out) in outputs.iter().enumerate() {
                    let check = self.check_all || self.witness == Some(i);
                    if !check || !model.sessions[i].alive {
                        continue;
                    }
                    if i == s && !kept {
                        continue;
                    }
                    let empty = BTreeMap::new();
                    let want = exp.get(&i).unwrap_or(&empty);
                    let mut want = want.clone();
                    // "ackorerr" marker
                    for e in want.values_mut() {
                        for b in e.seq.iter_mut() {
                            for t in b.iter_mut() {
                                if t == "ackorerr" {
                                    let got_err = out.iter().any(|m| matches!(m, SM::Err(_)));
                                    *t = if got_err { "err:{}".into() } else { "ack".into() };
                                }
                            }
                        }
                    }
                    compare_session(out, &want, &format!("session {i}"))?;
                }
                if next.core.data_tree() != snap["store"]["data"] {
                    return Err(format!("stored tree: impl={} reference={}", snap["store"]["data"], next.core.data_tree()));
                }
                crate::corescn::check_tables(&snap, &next.core)?;
                Ok(())
            })();
            match r {
                Ok(()) => return Ok((next, *f)),
                Err(e) => {
                    if first_err.is_empty() {
                        first_err = e;
                    }
                }
            }
        }
        Err(first_err)
    }
}

impl Scenario for SessionScenario {
    fn num_ops(&self) -> usize {
        self.lines.len()
    }

    fn op_json(&self, op: u16) -> Value {
        let (s, l) = &self.lines[op as usize];
        json!({"session": s, "line": Self::line_text(l)})
    }

    fn run(&self, history: &[u16]) -> Option<StepOut> {
        block_on(async {
            let wb = Worterbuch::with_config(base_config());
            let mut world = World::new(base_config(), wb, &self.clients).await;
            for i in 0..world.sessions.len() {
                world.drain(i);
            }
            let (mut model, _) = PModel::new(&self.clients);
            let mut known: Vec<(String, String)> = vec![];
            let mut class = String::new();
            for (i, o) in history.iter().enumerate() {
                let last = i + 1 == history.len();
                let (s, line) = &self.lines[*o as usize];
                if !model.sessions[*s].alive {
                    if last {
                        return None;
                    }
                    panic!("MACHINERY: closed session scheduled in prefix");
                }
                if let Some(m) = Self::decode(line) {
                    // duplicate subscription ids are outside the statements
                    let c = model.sessions[*s].c;
                    let dup = match &m {
                        CM::Subscribe(x) => Some(x.transaction_id),
                        CM::PSubscribe(x) => Some(x.transaction_id),
                        CM::SubscribeLs(x) => Some(x.transaction_id),
                        _ => None,
                    };
                    if let Some(t) = dup {
                        if model.core.subs.iter().any(|x| x.id == (c, t)) || model.core.ls_subs.iter().any(|x| x.id == (c, t)) {
                            if last {
                                return None;
                            }
                            panic!("MACHINERY: duplicate subscription in prefix");
                        }
                    }
                }
                match self.step(&mut world, &model, *s, line).await {
                    Ok((next, flags)) => {
                        model = next;
                        if last {
                            for sig in flags.signatures() {
                                if self.tolerated.contains(sig) {
                                    continue;
                                }
                                known.push((sig.to_owned(), format!("line {} behaves as the finding says", Self::line_text(line))));
                            }
                            class = match Self::decode(line) {
                                Some(m) => format!("{}", serde_json::to_value(&m).ok().and_then(|v| v.as_object().and_then(|o| o.keys().next().cloned())).unwrap_or_default()),
                                None => "undecodable".to_owned(),
                            };
                        }
                    }
                    Err(e) => {
                        if !last {
                            panic!("MACHINERY: prefix step failed on replay: {e}");
                        }
                        return Some(StepOut { fingerprint: 0, verdict: Verdict::Violation(e), class: "violation".into() });
                    }
                }
            }
            // witness script
            if let Some(w) = self.witness {
                if model.sessions[w].alive {
                    for m in &self.witness_script {
                        match self.step(&mut world, &model, w, &Line::Msg(m.clone())).await {
                            Ok((next, _)) => model = next,
                            Err(e) => {
                                return Some(StepOut {
                                    fingerprint: 0,
                                    verdict: Verdict::Violation(format!("witness session: {e}")),
                                    class: "violation".into(),
                                });
                            }
                        }
                    }
                }
            }
            let snap = world.snapshot().await.unwrap_or_default();
            let fp = if self.dedup && self.witness_script.is_empty() {
                hash_str(&format!(
                    "{}|{:?}|{:?}",
                    snap,
                    model.sessions,
                    model.core.ls_last
                ))
            } else {
                hash_str(&format!("{history:?}"))
            };
            Some(StepOut {
                fingerprint: fp,
                verdict: if known.is_empty() { Verdict::Ok } else { Verdict::Known(known) },
                class,
            })
        })
    }
}
