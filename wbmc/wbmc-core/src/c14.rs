//! C14 — every protocol message survives encoding and decoding unchanged; exhaustive over message
//! variants x small field alphabets.

use crate::real::*;
use mc::{Evidence, Report, util::par_map};
use serde_json::{Value, json};
use tokio::io::{AsyncBufReadExt, BufReader};
use worterbuch::verif::{ClientWriteCommand, LeaderSyncMessage, StateSync, Worterbuch};
use worterbuch_common::{ClientMessage as CM, ServerMessage as SM, *};

fn ids() -> Vec<u64> {
    vec![0, 1, (1u64 << 53) + 1, 1u64 << 63, u64::MAX]
}

fn keys() -> Vec<String> {
    ["", "a", "a/b", "ä/β", "a\nb", "\"", "#", "a\\", "\u{2028}"].iter().map(|s| s.to_string()).collect()
}

fn leaves() -> Vec<Value> {
    vec![
        Value::Null,
        json!(true),
        json!(0),
        json!(-1),
        json!(1.5),
        json!(1e308),
        json!(u64::MAX),
        json!(""),
        json!("\n"),
        json!("/"),
    ]
}

fn values(thorough: bool) -> Vec<Value> {
    let l = leaves();
    let names = ["value", "deleted", "keyValuePairs", "transactionId", "Cas", "v"];
    let mut out = l.clone();
    out.push(json!([]));
    out.push(json!({}));
    // longer than the 1024-byte chunks the line writer cuts a message into, with multi-byte
    // characters across the chunk boundaries
    out.push(json!("é".repeat(1300)));
    out.push(json!({"value": "x".repeat(1023), "deleted": ["€".repeat(400)]}));
    for a in &l {
        out.push(json!([a]));
        for n in names {
            out.push(json!({ n: a }));
        }
    }
    for (i, a) in l.iter().enumerate() {
        let b = &l[(i + 3) % l.len()];
        out.push(json!([a, b]));
        out.push(json!({"Cas": [a, 2]}));
        out.push(json!({"Cas": [a, b]}));
        out.push(json!({"value": a, "transactionId": b}));
        if thorough {
            for n in names {
                out.push(json!({ n: [a, b] }));
                out.push(json!({ n: { "Cas": [a, 1] } }));
                for n2 in names {
                    out.push(json!({ n: { n2: a } }));
                }
            }
        }
    }
    out
}

/// Messages whose encoding is exactly as long as 1, 2 or 3 chunks of the line writer (1024 bytes), and
/// one byte shorter / longer: the line break must follow whatever the payload length is.
fn chunk_boundary_messages() -> Vec<CM> {
    let mut out = vec![];
    let base = serde_json::to_string(&CM::Set(Set { transaction_id: 7, key: "k".into(), value: json!("") })).expect("json").len();
    for target in [1022usize, 1023, 1024, 1025, 2047, 2048, 2049, 3072, 4096] {
        let m = CM::Set(Set { transaction_id: 7, key: "k".into(), value: json!("x".repeat(target - base)) });
        assert_eq!(serde_json::to_string(&m).expect("json").len(), target, "MACHINERY: padding");
        out.push(m);
    }
    out
}

fn client_messages(thorough: bool) -> Vec<CM> {
    let mut out = chunk_boundary_messages();
    let vals = values(thorough);
    let flags = [None, Some(false), Some(true)];
    for t in ids() {
        for k in keys() {
            out.push(CM::Get(Get { transaction_id: t, key: k.clone() }));
            out.push(CM::CGet(Get { transaction_id: t, key: k.clone() }));
            out.push(CM::PGet(PGet { transaction_id: t, request_pattern: k.clone() }));
            out.push(CM::SPubInit(SPubInit { transaction_id: t, key: k.clone() }));
            out.push(CM::Delete(Delete { transaction_id: t, key: k.clone() }));
            out.push(CM::Lock(Lock { transaction_id: t, key: k.clone() }));
            out.push(CM::AcquireLock(Lock { transaction_id: t, key: k.clone() }));
            out.push(CM::ReleaseLock(Lock { transaction_id: t, key: k.clone() }));
            for f in flags {
                out.push(CM::PDelete(PDelete { transaction_id: t, request_pattern: k.clone(), quiet: f }));
                for u in [false, true] {
                    out.push(CM::Subscribe(Subscribe { transaction_id: t, key: k.clone(), unique: u, live_only: f }));
                    for agg in [None, Some(0u64), Some(u64::MAX)] {
                        out.push(CM::PSubscribe(PSubscribe { transaction_id: t, request_pattern: k.clone(), unique: u, aggregate_events: agg, live_only: f }));
                    }
                }
            }
            for p in [None, Some(k.clone())] {
                out.push(CM::Ls(Ls { transaction_id: t, parent: p.clone() }));
                out.push(CM::PLs(PLs { transaction_id: t, parent_pattern: p.clone() }));
                out.push(CM::SubscribeLs(SubscribeLs { transaction_id: t, parent: p }));
            }
        }
        out.push(CM::Unsubscribe(Unsubscribe { transaction_id: t }));
        out.push(CM::UnsubscribeLs(UnsubscribeLs { transaction_id: t }));
    }
    for v in &vals {
        for t in [0u64, u64::MAX] {
            for k in ["a", "a\nb"] {
                out.push(CM::Set(Set { transaction_id: t, key: k.into(), value: v.clone() }));
                out.push(CM::Publish(Publish { transaction_id: t, key: k.into(), value: v.clone() }));
                out.push(CM::Transform(Transform { transaction_id: t, key: k.into(), template: v.clone() }));
                for ver in [0u64, u64::MAX] {
                    out.push(CM::CSet(CSet { transaction_id: t, key: k.into(), value: v.clone(), version: ver }));
                }
            }
            out.push(CM::SPub(SPub { transaction_id: t, value: v.clone() }));
        }
    }
    for ver in [0u32, 1, u32::MAX] {
        out.push(CM::ProtocolSwitchRequest(ProtocolSwitchRequest { version: ver }));
    }
    for tok in ["", "a.b.c", "\n"] {
        out.push(CM::AuthorizationRequest(AuthorizationRequest { auth_token: tok.into() }));
    }
    out
}

fn server_messages(thorough: bool) -> Vec<SM> {
    let mut out = vec![];
    let vals = values(thorough);
    for t in ids() {
        out.push(SM::Ack(Ack { transaction_id: t }));
        out.push(SM::Authorized(Ack { transaction_id: t }));
        for code in [ErrorCode::IllegalWildcard, ErrorCode::Cas, ErrorCode::EmptyKey, ErrorCode::Other] {
            for meta in ["", "\"quoted\"", "a\nb"] {
                out.push(SM::Err(Err { transaction_id: t, error_code: code.clone(), metadata: meta.into() }));
            }
        }
        for k in keys() {
            out.push(SM::LsState(LsState { transaction_id: t, children: vec![] }));
            out.push(SM::LsState(LsState { transaction_id: t, children: vec![k.clone(), "x".into()] }));
        }
    }
    for v in &vals {
        for t in [0u64, u64::MAX] {
            out.push(SM::State(State { transaction_id: t, event: StateEvent::Value(v.clone()) }));
            out.push(SM::State(State { transaction_id: t, event: StateEvent::Deleted(v.clone()) }));
            for ver in [0u64, u64::MAX] {
                out.push(SM::CState(CState { transaction_id: t, event: CStateEvent { value: v.clone(), version: ver } }));
            }
            for k in ["a", "a\nb", ""] {
                let kv = vec![KeyValuePair { key: k.into(), value: v.clone() }, KeyValuePair { key: "z".into(), value: json!(1) }];
                out.push(SM::PState(PState { transaction_id: t, request_pattern: k.into(), event: PStateEvent::KeyValuePairs(kv.clone()) }));
                out.push(SM::PState(PState { transaction_id: t, request_pattern: k.into(), event: PStateEvent::Deleted(kv) }));
            }
        }
    }
    out.push(SM::PState(PState { transaction_id: 1, request_pattern: "#".into(), event: PStateEvent::KeyValuePairs(vec![]) }));
    out.push(SM::PState(PState { transaction_id: 1, request_pattern: "#".into(), event: PStateEvent::Deleted(vec![]) }));
    out.push(SM::Welcome(Welcome {
        client_id: "c".into(),
        info: ServerInfo::new("1.0".into(), vec![ProtocolVersion::new(0, 11), ProtocolVersion::new(1, 1)].into(), true),
    }));
    out
}

/// A transport that takes at most `max` bytes per write call (a socket under back-pressure).
struct ShortWriter {
    out: Vec<u8>,
    max: usize,
}

impl tokio::io::AsyncWrite for ShortWriter {
    fn poll_write(mut self: std::pin::Pin<&mut Self>, _: &mut std::task::Context<'_>, buf: &[u8]) -> std::task::Poll<std::io::Result<usize>> {
        let n = buf.len().min(self.max);
        self.out.extend_from_slice(&buf[..n]);
        std::task::Poll::Ready(Ok(n))
    }
    fn poll_flush(self: std::pin::Pin<&mut Self>, _: &mut std::task::Context<'_>) -> std::task::Poll<std::io::Result<()>> {
        std::task::Poll::Ready(Ok(()))
    }
    fn poll_shutdown(self: std::pin::Pin<&mut Self>, _: &mut std::task::Context<'_>) -> std::task::Poll<std::io::Result<()>> {
        std::task::Poll::Ready(Ok(()))
    }
}

/// encode -> one line -> decode (both through `from_str` and through the real line reader)
async fn line_roundtrip<T: serde::Serialize + serde::de::DeserializeOwned>(m: &T) -> Result<(String, T, T), String> {
    let a = serde_json::to_string(m).map_err(|e| format!("encode: {e}"))?;
    let b = serde_json::to_string(m).map_err(|e| format!("encode: {e}"))?;
    if a != b {
        return Err("encoding the same message twice gives different bytes".into());
    }
    if a.contains('\n') || a.contains('\r') {
        return Err(format!("encoding contains a line break: {a:?}"));
    }
    let mut buf: Vec<u8> = vec![];
    write_line_and_flush(m, &mut buf, None, "test").await.map_err(|e| format!("write_line_and_flush refused the message: {e}"))?;
    if buf.iter().filter(|c| **c == b'\n').count() != 1 || buf.last() != Some(&b'\n') {
        return Err(format!("not exactly one line on the wire: {:?}", String::from_utf8_lossy(&buf)));
    }
    // the bytes on the wire are a function of the message alone: a transport that accepts only a few
    // bytes per call (with and without a send timeout) must end up with the same line
    for (max, timeout) in [(1usize, None), (7, Some(std::time::Duration::from_secs(5))), (100, None), (1023, None)] {
        let mut w = ShortWriter { out: vec![], max };
        write_line_and_flush(m, &mut w, timeout, "test").await.map_err(|e| format!("write_line_and_flush over a transport taking {max} bytes per call: {e}"))?;
        if w.out != buf {
            return Err(format!(
                "over a transport taking {max} bytes per call the wire holds {:?} instead of {:?}",
                String::from_utf8_lossy(&w.out).chars().take(120).collect::<String>(),
                String::from_utf8_lossy(&buf).chars().take(120).collect::<String>()
            ));
        }
    }
    let direct: T = serde_json::from_str(&a).map_err(|e| format!("decode of {a}: {e}"))?;
    let mut lines = BufReader::new(&buf[..]).lines();
    let via_reader: T = receive_msg(&mut lines)
        .await
        .map_err(|e| format!("receive_msg: {e}"))?
        .ok_or_else(|| "receive_msg returned end of stream".to_owned())?;
    Ok((a, direct, via_reader))
}

fn sync_entries() -> Vec<(String, Value, Option<u64>)> {
    let mut out = vec![];
    for (i, v) in values(false).into_iter().enumerate() {
        out.push((format!("k/{i}"), v.clone(), None));
        if i % 7 == 0 {
            out.push((format!("c/{i}"), v, Some(if i % 2 == 0 { u64::MAX } else { (1 << 53) + 1 })));
        }
    }
    out
}

pub fn run(tier: &str) -> i32 {
    let thorough = tier == "thorough";
    let mut ev = Evidence::new("C14", tier, "exploration");
    let mut rep = Report::new("C14");
    let cms = client_messages(thorough);
    let sms = server_messages(thorough);
    let r1 = par_map(&cms, |_, m| {
        // (a panic of the codec is a verdict about the code under test, not a harness failure)
        mc::util::catch(|| {
            block_on(async {
                match line_roundtrip(m).await {
                    Ok((_, d, r)) if d == *m && r == *m => Ok(()),
                    Ok((enc, d, _)) => Err(format!("decodes to a different message: {enc} -> {d:?}")),
                    Err(e) => Err(e),
                }
            })
        })
        .unwrap_or_else(|p| Err(format!("panic in the code under test: {p}")))
    });
    for (m, r) in cms.iter().zip(r1) {
        if let Err(e) = r {
            rep.violation(format!("client message {m:?}: {e}"), json!({"kind": "client", "message": format!("{m:?}")}));
        }
    }
    let r2 = par_map(&sms, |_, m| {
        // (a panic of the codec is a verdict about the code under test, not a harness failure)
        mc::util::catch(|| {
            block_on(async {
                match line_roundtrip(m).await {
                    Ok((_, d, r)) if d == *m && r == *m => Ok(()),
                    Ok((enc, d, _)) => Err(format!("decodes to a different message: {enc} -> {d:?}")),
                    Err(e) => Err(e),
                }
            })
        })
        .unwrap_or_else(|p| Err(format!("panic in the code under test: {p}")))
    });
    for (m, r) in sms.iter().zip(r2) {
        if let Err(e) = r {
            rep.violation(format!("server message {m:?}: {e}"), json!({"kind": "server", "message": format!("{m:?}")}));
        }
    }
    // cluster sync messages
    let mut sync_count = 0u64;
    let vals = values(thorough);
    let mut cmds: Vec<ClientWriteCommand> = vec![];
    for k in keys() {
        cmds.push(ClientWriteCommand::Delete(k.clone()));
        cmds.push(ClientWriteCommand::PDelete(k.clone()));
    }
    for v in &vals {
        for force in [false, true] {
            cmds.push(ClientWriteCommand::Set("a".into(), v.clone(), force));
            for ver in [0, u64::MAX] {
                cmds.push(ClientWriteCommand::CSet("a\nb".into(), v.clone(), ver, force));
            }
        }
    }
    let same_cmd = |a: &ClientWriteCommand, b: &ClientWriteCommand| match (a, b) {
        (ClientWriteCommand::Set(k1, v1, f1), ClientWriteCommand::Set(k2, v2, f2)) => k1 == k2 && v1 == v2 && f1 == f2,
        (ClientWriteCommand::CSet(k1, v1, n1, f1), ClientWriteCommand::CSet(k2, v2, n2, f2)) => k1 == k2 && v1 == v2 && n1 == n2 && f1 == f2,
        (ClientWriteCommand::Delete(a), ClientWriteCommand::Delete(b)) => a == b,
        (ClientWriteCommand::PDelete(a), ClientWriteCommand::PDelete(b)) => a == b,
        _ => false,
    };
    for c in &cmds {
        sync_count += 1;
        let m = LeaderSyncMessage::Mut(c.clone());
        match mc::util::catch(|| block_on(line_roundtrip(&m))).unwrap_or_else(|p| Err(format!("panic in the code under test: {p}"))) {
            Ok((enc, LeaderSyncMessage::Mut(d), LeaderSyncMessage::Mut(r))) => {
                if !same_cmd(c, &d) || !same_cmd(c, &r) {
                    rep.violation(format!("sync message {c:?} decodes to {d:?} ({enc})"), json!({"kind": "sync", "message": format!("{c:?}")}));
                }
            }
            Ok(_) => rep.violation(format!("sync message {c:?} decodes to another variant"), json!({"kind": "sync", "message": format!("{c:?}")})),
            Err(e) => rep.violation(format!("sync message {c:?}: {e}"), json!({"kind": "sync", "message": format!("{c:?}")})),
        }
    }
    // StateSync: one message per stored entry (so that a failure names its entry), built by the
    // real export
    for (k, v, ver) in sync_entries() {
        sync_count += 1;
        let res: Result<Option<&'static str>, String> = mc::util::catch(|| block_on(async {
            let mut wb = Worterbuch::with_config(base_config());
            match ver {
                None => wb.set(k.clone(), v.clone(), crate::ops::cid(crate::ops::INTERNAL), false).await.map_err(|e| format!("MACHINERY: {e}"))?,
                Some(n) => {
                    let doc = json!({"data": {"t": {"c": {"t": {k.split('/').nth(1).unwrap_or("x"): {"v": {"Cas": [v, n]}}}}}}}).to_string();
                    wb.import(&doc).await.map(|_| ()).map_err(|e| format!("MACHINERY: {e}"))?
                }
            }
            let (node, gg, lw) = wb.export();
            let gg2 = vec!["a/#".to_owned(), "x\ny".to_owned()];
            let lw2 = vec![KeyValuePair { key: "w".into(), value: v.clone() }];
            let _ = (gg, lw);
            let m = LeaderSyncMessage::Init(StateSync(node.clone(), gg2.clone(), lw2.clone()));
            let (_, d, r) = line_roundtrip(&m).await?;
            for x in [d, r] {
                match x {
                    LeaderSyncMessage::Init(StateSync(n2, g, l)) => {
                        if g != gg2 || l != lw2 {
                            return Err("grave goods / last wills changed".into());
                        }
                        if n2 != node {
                            // classify
                            let plain = ver.is_none();
                            if plain && v.is_null() {
                                return Ok(Some("null_value_lost"));
                            }
                            if plain && matches!(crate::model::parse_entry(&v), crate::model::Entry::Cas(..)) {
                                return Ok(Some("cas_tag_collision"));
                            }
                            return Err(format!("store node changed: {node:?} -> {n2:?}"));
                        }
                    }
                    _ => return Err("decodes to another variant".into()),
                }
            }
            Ok(None)
        }))
        .unwrap_or_else(|p| Err(format!("panic in the code under test: {p}")));
        let replay = json!({"kind": "stateSync", "key": k, "value": v, "cas_version": ver});
        match res {
            Ok(None) => {}
            Ok(Some(sig)) => rep.known_or_violation(sig, format!("initial sync of {k} = {v} ({ver:?}) arrives as a different entry"), replay),
            Err(e) if e.starts_with("MACHINERY") => rep.machinery(e),
            Err(e) => rep.violation(format!("initial sync message with {k} = {v} ({ver:?}): {e}"), replay),
        }
    }
    let total = cms.len() as u64 + sms.len() as u64 + sync_count;
    ev.set("evaluations", json!(total));
    ev.set("distinct_nontrivial", json!(total));
    ev.set("exhaustive", json!(true));
    ev.set("client_messages", json!(cms.len()));
    ev.set("server_messages", json!(sms.len()));
    ev.set("sync_messages", json!(sync_count));
    ev.set("rule", json!("every variant of ClientMessage, ServerMessage and LeaderSyncMessage/ClientWriteCommand/StateSync x field alphabets (ids/versions 0, 1, 2^53+1, 2^63, u64::MAX; keys with empty, unicode, newline, quote, backslash, U+2028; JSON terms of depth <= 2 whose object keys collide with envelope field names; optional fields present/absent); generated messages are pairwise distinct by construction and each exercises encode, single-line check, write_line_and_flush, from_str and receive_msg; all are counted as non-trivial"));
    ev.push_sample(json!(serde_json::to_string(&cms[cms.len() / 2]).unwrap_or_default()));
    ev.push_sample(json!(serde_json::to_string(&sms[sms.len() / 2]).unwrap_or_default()));
    ev.push_sample(json!(serde_json::to_string(&LeaderSyncMessage::Mut(cmds[cmds.len() / 2].clone())).unwrap_or_default()));
    ev.assume("StateSync messages are built by the real export of a core holding one entry each, so that a failing entry is named");
    rep.finish(&mut ev)
}
