//! C18 — incremental (ReDB) persistence recovers a prefix of what was applied.
//!
//! The core is built by the real `persistence::restore` in ReDB mode on its own current-thread
//! runtime. The background writer task only runs where the harness yields (`Settle`), so every
//! way the writer can batch the queued changes is produced deterministically; the "crash" drops
//! the whole runtime (queued, uncommitted actions are lost; committed redb transactions are
//! durable). A fresh runtime then restores from the database file.

use crate::{model::*, ops::*, persist::{content_of, fresh_dir, scratch_root}, real::*};
use mc::{Scenario, StepOut, Verdict, util::hash_str};
use serde_json::{Value, json};
use std::{
    collections::{BTreeMap, BTreeSet},
    sync::atomic::{AtomicU64, Ordering},
};
use tokio::sync::mpsc;
use tosub::SubsystemHandle;
use worterbuch::{Config, PersistenceMode, server::CloneableWbApi, verif::Worterbuch};
use worterbuch_common::Protocol;

static DIR_COUNTER: AtomicU64 = AtomicU64::new(0);
pub const SIG_REDB_VERSION: &str = "redb_cas_version_reset";

#[derive(Clone, Debug)]
pub enum ROp {
    Do(Op),
    /// the harness lets the writer task run until it has committed everything that is queued
    Settle,
    /// the one-second timer task queues its time-stamp update now (it runs concurrently with the core,
    /// so the update can land at every position of the writer's queue)
    Tick,
}

pub struct RedbScenario {
    pub ops: Vec<ROp>,
    pub open: BTreeSet<String>,
    /// end with a clean stop (flush) instead of a crash
    pub clean_stop: bool,
}

fn redb_config(dir: &std::path::Path) -> Config {
    let mut cfg = base_config();
    cfg.use_persistence = true;
    cfg.persistence_mode = PersistenceMode::ReDB;
    cfg.data_dir = dir.to_string_lossy().to_string();
    cfg
}

fn new_runtime() -> tokio::runtime::Runtime {
    tokio::runtime::Builder::new_current_thread().enable_all().start_paused(true).build().expect("runtime")
}

async fn subsystem() -> SubsystemHandle {
    let (tx, mut rx) = mpsc::channel::<SubsystemHandle>(1);
    tokio::spawn(async move {
        tosub::build_root("wbmc")
            .catch_no_signals()
            .no_shutdown_on_stdin_close()
            .start(move |s: SubsystemHandle| async move {
                tx.send(s.clone()).await.ok();
                s.shutdown_requested().await;
                Ok::<(), miette::Error>(())
            })
            .await
            .ok();
    });
    rx.recv().await.expect("MACHINERY: subsystem handle")
}

async fn restore(cfg: &Config) -> Result<Worterbuch, String> {
    let subsys = subsystem().await;
    let (tx, _rx) = mpsc::channel(1);
    let api = CloneableWbApi::new(tx, cfg.clone());
    worterbuch::verif::restore(&subsys, cfg, &api).await.map_err(|e| format!("restore failed: {e}"))
}

async fn yield_many() {
    for _ in 0..16 {
        tokio::task::yield_now().await;
    }
}

/// One persisted action as the reference sees it.
#[derive(Clone, Debug)]
enum Act {
    /// single-key changes of one request (order among them unknown): key -> Some(entry)/None
    Data(Vec<(String, Option<Value>)>),
    Gg(C, Option<Vec<String>>),
    Lw(C, Option<Vec<(String, Value)>>),
}

fn entry_json(e: &Entry) -> Value {
    match e {
        Entry::Plain(v) => json!({ "p": v }),
        Entry::Cas(v, n) => json!({ "c": [v, n] }),
    }
}

fn user_key(k: &Path) -> bool {
    k.first().map(|s| s != "$SYS").unwrap_or(true)
}

/// Expected recovered content from a data map and the registrations at that point.
fn recovered(data: &BTreeMap<String, Value>, gg: &BTreeMap<C, Vec<String>>, lw: &BTreeMap<C, Vec<(String, Value)>>) -> BTreeMap<String, Value> {
    let mut out = data.clone();
    for pats in gg.values() {
        for g in pats {
            let p = parse_pattern(g);
            out.retain(|k, _| !matches(&p, &split(k), false));
        }
    }
    for l in lw.values() {
        for (k, v) in l {
            out.insert(k.clone(), json!({ "p": v }));
        }
    }
    out
}

fn strip_versions(m: &BTreeMap<String, Value>) -> BTreeMap<String, Value> {
    m.iter()
        .map(|(k, v)| {
            let mut v = v.clone();
            if let Some(c) = v.get_mut("c").and_then(|c| c.as_array_mut()) {
                c[1] = json!("any");
            }
            (k.clone(), v)
        })
        .collect()
}

impl Scenario for RedbScenario {
    fn num_ops(&self) -> usize {
        self.ops.len()
    }
    fn op_json(&self, op: u16) -> Value {
        json!(format!("{:?}", self.ops[op as usize]))
    }
    fn run(&self, history: &[u16]) -> Option<StepOut> {
        // two settles in a row are the same as one
        for w in history.windows(2) {
            if matches!(self.ops[w[0] as usize], ROp::Settle) && matches!(self.ops[w[1] as usize], ROp::Settle) {
                return None;
            }
        }
        if matches!(history.first().map(|o| &self.ops[*o as usize]), Some(ROp::Settle)) {
            return None;
        }
        // a tick right after a tick or a settle, or at the very end, is the same as none
        for w in history.windows(2) {
            if matches!(self.ops[w[1] as usize], ROp::Tick) && !matches!(self.ops[w[0] as usize], ROp::Do(_)) {
                return None;
            }
        }
        if history.len() > 1 && matches!(history.first().map(|o| &self.ops[*o as usize]), Some(ROp::Tick)) {
            return None;
        }
        let root = scratch_root();
        let dir = fresh_dir(&root, &format!("c18-{}", DIR_COUNTER.fetch_add(1, Ordering::Relaxed)));
        let cfg = redb_config(&dir);
        worterbuch::verif::unlock_persistence();
        // ---- first life
        let rt = new_runtime();
        let mut model = RefCore::default();
        let mut acts: Vec<Act> = vec![];
        let mut durable = 0usize; // number of actions queued before the last settle
        let doc = Flags::default();
        let first: Result<String, String> = rt.block_on(async {
            let mut wb = restore(&cfg).await?;
            yield_many().await;
            let mut class = String::new();
            for o in history {
                match &self.ops[*o as usize] {
                    ROp::Settle => {
                        // the writer runs until it has worked off everything queued so far; the end of
                        // that is observed through a flush request at the tail of its queue (a time-stamp
                        // update in between writes a file on the blocking pool, which takes real time,
                        // so a fixed number of yields would not do)
                        yield_many().await;
                        worterbuch::verif::flush(&mut wb).await.map_err(|e| format!("MACHINERY: settle: {e}"))?;
                        durable = acts.len();
                        class = "settle".into();
                    }
                    ROp::Tick => {
                        if !worterbuch::verif::redb_queue_timestamp_update(&wb).await {
                            return Err("MACHINERY: the core does not use the ReDB persistence".into());
                        }
                        class = "tick".into();
                    }
                    ROp::Do(op) => {
                        let mut real = RealCore::with(wb);
                        let obs = real.apply(op).await;
                        wb = real.wb;
                        let (m, next) = model.step(op, &doc);
                        let ans = obs.answer.clone().expect("answer");
                        if !m.expect.accepts(&ans) {
                            return Err(format!("MACHINERY: core answer {ans:?} differs from the reference {:?} for {op:?} (C01's business)", m.expect));
                        }
                        class = format!("{}:{}", op.kind(), ans.class());
                        // persisted actions of this request
                        let mut changes = vec![];
                        for k in model.data.keys().chain(next.data.keys()).collect::<BTreeSet<_>>() {
                            if user_key(k) && model.data.get(k) != next.data.get(k) {
                                changes.push((k.join("/"), next.data.get(k).map(entry_json)));
                            }
                        }
                        // an accepted write of an unchanged value is persisted again as well, harmless
                        if !changes.is_empty() {
                            acts.push(Act::Data(changes));
                        }
                        for c in 0..3u8 {
                            let ggk = split(&format!("$SYS/clients/{}/graveGoods", cid(c)));
                            let lwk = split(&format!("$SYS/clients/{}/lastWill", cid(c)));
                            if model.data.get(&ggk) != next.data.get(&ggk) {
                                acts.push(Act::Gg(c, next.data.get(&ggk).and_then(|e| serde_json::from_value(e.value().clone()).ok())));
                            }
                            if model.data.get(&lwk) != next.data.get(&lwk) {
                                acts.push(Act::Lw(c, next.data.get(&lwk).and_then(|e| parse_last_will(e.value()))));
                            }
                        }
                        model = next;
                    }
                }
            }
            if self.clean_stop {
                worterbuch::verif::flush(&mut wb).await.map_err(|e| format!("flush failed: {e}"))?;
                durable = acts.len();
            }
            Ok(class)
        });
        // ---- crash: everything of the first life disappears
        drop(rt);
        let class = match first {
            Ok(c) => c,
            Err(e) => {
                std::fs::remove_dir_all(&dir).ok();
                if e.starts_with("MACHINERY") {
                    panic!("{e}");
                }
                return Some(StepOut { fingerprint: 0, verdict: Verdict::Violation(e), class: "violation".into() });
            }
        };
        // ---- second life
        let rt2 = new_runtime();
        let got: Result<BTreeMap<String, Value>, String> = rt2.block_on(async {
            let wb = restore(&cfg).await?;
            let c = content_of(&wb);
            Ok(c.into_iter().filter(|(k, _)| k != "$SYS" && !k.starts_with("$SYS/")).collect())
        });
        drop(rt2);
        std::fs::remove_dir_all(&dir).ok();
        let got = match got {
            Ok(g) => g,
            Err(e) => return Some(StepOut { fingerprint: 0, verdict: Verdict::Violation(e), class }),
        };
        // ---- allowed states: every prefix of the action sequence from `durable` on, including the
        // partial application of the next multi-key request
        let mut data: BTreeMap<String, Value> = BTreeMap::new();
        let mut gg: BTreeMap<C, Vec<String>> = BTreeMap::new();
        let mut lw: BTreeMap<C, Vec<(String, Value)>> = BTreeMap::new();
        let mut allowed: Vec<BTreeMap<String, Value>> = vec![];
        if durable == 0 {
            allowed.push(recovered(&data, &gg, &lw));
        }
        for (i, a) in acts.iter().enumerate() {
            match a {
                Act::Data(changes) => {
                    if i >= durable && changes.len() > 1 && changes.len() <= 4 {
                        for mask in 1..((1u32 << changes.len()) - 1) {
                            let mut d = data.clone();
                            for (j, (k, v)) in changes.iter().enumerate() {
                                if mask & (1 << j) != 0 {
                                    match v {
                                        Some(v) => { d.insert(k.clone(), v.clone()); }
                                        None => { d.remove(k); }
                                    }
                                }
                            }
                            allowed.push(recovered(&d, &gg, &lw));
                        }
                    }
                    for (k, v) in changes {
                        match v {
                            Some(v) => { data.insert(k.clone(), v.clone()); }
                            None => { data.remove(k); }
                        }
                    }
                }
                Act::Gg(c, g) => match g {
                    Some(g) => { gg.insert(*c, g.clone()); }
                    None => { gg.remove(c); }
                },
                Act::Lw(c, l) => match l {
                    Some(l) => { lw.insert(*c, l.clone()); }
                    None => { lw.remove(c); }
                },
            }
            if i + 1 >= durable {
                allowed.push(recovered(&data, &gg, &lw));
            }
        }
        let verdict = if allowed.iter().any(|a| *a == got) {
            Verdict::Ok
        } else if self.open.contains(SIG_REDB_VERSION)
            && allowed.iter().any(|a| strip_versions(a) == strip_versions(&got))
            && got.values().all(|v| v.get("c").map(|c| c[1] == json!(1)).unwrap_or(true))
        {
            Verdict::Known(vec![(SIG_REDB_VERSION.to_owned(), format!("recovered {got:?}; a state with the same values and kinds but other CAS versions is allowed"))])
        } else {
            Verdict::Violation(format!(
                "recovered {got:?}, which is none of the {} allowed prefix states (durable actions: {durable} of {}; last allowed: {:?})",
                allowed.len(),
                acts.len(),
                allowed.last()
            ))
        };
        Some(StepOut { fingerprint: hash_str(&format!("{history:?}")), verdict, class })
    }
}

pub fn scenario(open: BTreeSet<String>, clean_stop: bool) -> RedbScenario {
    let s = |x: &str| x.to_owned();
    let ops = vec![
        ROp::Settle,
        ROp::Tick,
        ROp::Do(Op::Set(0, s("a"), json!(1))),
        ROp::Do(Op::Set(0, s("b/x"), json!(2))),
        ROp::Do(Op::Set(0, s("a"), json!(3))),
        ROp::Do(Op::CSet(0, s("c"), json!(1), 0)),
        ROp::Do(Op::CSet(0, s("c"), json!(2), 1)),
        ROp::Do(Op::Delete(0, s("a"))),
        ROp::Do(Op::PDelete(0, s("?"))),
        ROp::Do(Op::PDelete(0, s("b/?"))),
        ROp::Do(Op::Connect(0)),
        ROp::Do(Op::Set(0, format!("$SYS/clients/{}/graveGoods", cid(0)), json!(["b/?"]))),
        ROp::Do(Op::Set(0, format!("$SYS/clients/{}/lastWill", cid(0)), json!([{"key": "lw", "value": 1}]))),
        ROp::Do(Op::Disconnect(0)),
    ];
    RedbScenario { ops, open, clean_stop }
}
