//! Glue between a scenario, the explorer, the evidence file and the exit code.

use mc::{Evidence, ExploreStats, Limits, Report, Scenario, explore};
use serde_json::{Value, json};

pub struct Tiered {
    pub quick: Limits,
    pub thorough: Limits,
}

pub fn tier_from_args(args: &[String]) -> String {
    let t = args
        .get(2)
        .cloned()
        .or_else(|| std::env::var("VERIF_TIER").ok())
        .unwrap_or_else(|| "quick".to_owned());
    if t == "thorough" { t } else { "quick".to_owned() }
}

/// Fold the statistics of one exploration into the evidence and the report.
pub fn absorb(
    name: &str,
    sc: &dyn Scenario,
    stats: &ExploreStats,
    ev: &mut Evidence,
    rep: &mut Report,
    engine: &str,
) {
    ev.add("states", stats.states);
    ev.add("transitions", stats.transitions);
    ev.add("evaluations", stats.executions);
    // every explored trace is an execution of the implementation itself
    ev.add("traces_validated_against_impl", stats.transitions);
    let mut part = stats.coverage_json(sc);
    part["engine"] = json!(engine);
    let mut parts = ev.coverage.get("explorations").cloned().unwrap_or_else(|| json!({}));
    parts[name] = part;
    ev.set("explorations", parts);
    for h in &stats.samples {
        ev.push_sample(json!({"scenario": name, "history": ExploreStats::history_json(sc, h)}));
    }
    for (sig, (count, what, h)) in &stats.known {
        for _ in 0..(*count).min(1) {
            rep.known_or_violation(
                sig,
                what.clone(),
                json!({"scenario": name, "history": h, "ops": ExploreStats::history_json(sc, h)}),
            );
        }
        if let Some(e) = rep.known_hits.get_mut(sig) {
            e.0 += count.saturating_sub(1);
        }
    }
    for (h, msg) in &stats.violations {
        rep.violation(
            msg.clone(),
            json!({"scenario": name, "history": h, "ops": ExploreStats::history_json(sc, h)}),
        );
    }
    for m in &stats.machinery {
        rep.machinery(format!("{name}: {m}"));
    }
}

pub fn run_scenarios(
    property: &str,
    tier: &str,
    level: &str,
    scenarios: Vec<(String, Box<dyn Scenario>, Tiered, &'static str)>,
    assumptions: &[&str],
    rule: &str,
) -> i32 {
    let mut ev = Evidence::new(property, tier, level);
    let mut rep = Report::new(property);
    let mut classes = std::collections::BTreeSet::new();
    let mut exhaustive = true;
    for (name, sc, lims, engine) in &scenarios {
        let lim = if tier == "thorough" { &lims.thorough } else { &lims.quick };
        let stats = explore(sc.as_ref(), lim);
        eprintln!(
            "[{property}/{name}] states={} transitions={} depth={} fixpoint={} cap={:?} classes={} known={} violations={}",
            stats.states,
            stats.transitions,
            stats.depth_completed,
            stats.exhausted,
            stats.capped,
            stats.classes.len(),
            stats.known.len(),
            stats.violations.len()
        );
        for c in &stats.classes {
            classes.insert(format!("{name}:{c}"));
        }
        if stats.capped.is_some() {
            exhaustive = false;
        }
        absorb(name, sc.as_ref(), &stats, &mut ev, &mut rep, engine);
    }
    ev.set("distinct_nontrivial", json!(classes.len()));
    ev.set("rule", Value::String(rule.to_owned()));
    ev.set("exhaustive", json!(exhaustive));
    for a in assumptions {
        ev.assume(a);
    }
    rep.finish(&mut ev)
}

/// Re-run one recorded history without the explorer.
pub fn replay(sc: &dyn Scenario, file: &str) -> i32 {
    let text = match std::fs::read_to_string(file) {
        Ok(t) => t,
        Err(e) => {
            eprintln!("MACHINERY: cannot read {file}: {e}");
            return 2;
        }
    };
    let v: Value = serde_json::from_str(&text).unwrap_or_default();
    let hist: Vec<u16> = v["replay"]["history"]
        .as_array()
        .map(|a| a.iter().filter_map(|x| x.as_u64()).map(|x| x as u16).collect())
        .unwrap_or_default();
    for n in 1..=hist.len() {
        let r = mc::util::catch(|| sc.run(&hist[..n]));
        println!("step {n} {}: {:?}", sc.op_json(hist[n - 1]), r);
    }
    0
}
