//! C12 — promoting a follower loses nothing that was replicated.
//!
//! Leader histories (C11's machinery) with a follower whose core is built and persisted exactly as
//! a node started by the orchestrator: `Config::new(Some(Args{follower/leader ...}))` with only the
//! data directory in the environment, the real `persistence::restore`, the follower's flush points
//! (after the initial sync, on periodic ticks, at shutdown), then a new core restored from the
//! follower's data directory in leader mode.

use crate::{c11::*, model::*, ops::*, persist::{content_of, fresh_dir, scratch_root}, real::*};
use mc::{Scenario, StepOut, Verdict, util::hash_str};
use serde_json::{Value, json};
use std::{
    collections::{BTreeMap, BTreeSet},
    sync::{OnceLock, atomic::{AtomicU64, Ordering}},
};
use tokio::sync::mpsc;
use tosub::SubsystemHandle;
use worterbuch::{Args, Config, server::CloneableWbApi, verif::{Worterbuch, follower}};

static ROLE_CONFIGS: OnceLock<(Config, Config)> = OnceLock::new();
static DIR_COUNTER: AtomicU64 = AtomicU64::new(0);

/// The configurations a node gets when the orchestrator starts it: command-line role flags, and
/// nothing but the data directory in the environment. Must be called from the main thread before
/// the exploration starts (it touches the process environment).
pub fn init_role_configs() {
    // SAFETY: single-threaded at this point
    unsafe { std::env::set_var("WORTERBUCH_DATA_DIR", "/nonexistent/placeholder") };
    let follower = block_on(Config::new(Some(Args {
        leader: false,
        follower: true,
        sync_port: None,
        leader_address: Some("127.0.0.1:1".into()),
        instance_name: Some("node-b".into()),
    })))
    .expect("follower config");
    let leader = block_on(Config::new(Some(Args {
        leader: true,
        follower: false,
        sync_port: Some(1),
        leader_address: None,
        instance_name: Some("node-b".into()),
    })))
    .expect("leader config");
    unsafe { std::env::remove_var("WORTERBUCH_DATA_DIR") };
    ROLE_CONFIGS.set((follower, leader)).ok();
}

fn role_config(leader: bool, dir: &std::path::Path) -> Config {
    let (f, l) = ROLE_CONFIGS.get().expect("MACHINERY: role configs not initialised");
    let mut cfg = if leader { l.clone() } else { f.clone() };
    cfg.data_dir = dir.to_string_lossy().to_string();
    // no wall-clock values in $SYS, no sockets: only the persistence side of the node is exercised
    cfg.extended_monitoring = false;
    cfg
}

async fn subsystem() -> SubsystemHandle {
    let (tx, mut rx) = mpsc::channel::<SubsystemHandle>(1);
    tokio::spawn(async move {
        tosub::build_root("wbmc")
            .catch_no_signals()
            .no_shutdown_on_stdin_close()
            .start(move |s: SubsystemHandle| async move {
                tx.send(s.clone()).await.ok();
                s.shutdown_requested().await;
                Ok::<(), miette::Error>(())
            })
            .await
            .ok();
    });
    rx.recv().await.expect("MACHINERY: subsystem handle")
}

fn dummy_api(cfg: &Config) -> CloneableWbApi {
    let (tx, _rx) = mpsc::channel(1);
    CloneableWbApi::new(tx, cfg.clone())
}

#[derive(Clone, Debug)]
pub enum POp {
    Api(Op),
    Join,
    /// the follower's persistence interval fires
    Tick,
    /// the leader disappears; the follower is stopped (shutdown sequence) and restarted as leader
    Promote,
    /// a client of the follower node itself (its REST / SSE endpoints serve reads) comes and goes
    FollowerSession,
    /// the leader disappears and the follower node is lost abruptly as well (no shutdown sequence);
    /// it is restarted as leader from what its last flush wrote
    Kill,
}

pub struct PromoScenario {
    pub ops: Vec<POp>,
    pub open: BTreeSet<String>,
}

fn user(c: &BTreeMap<String, Value>) -> BTreeMap<String, Value> {
    c.iter().filter(|(k, _)| *k != "$SYS" && !k.starts_with("$SYS/")).map(|(k, v)| (k.clone(), v.clone())).collect()
}

impl Scenario for PromoScenario {
    fn num_ops(&self) -> usize {
        self.ops.len()
    }
    fn op_json(&self, op: u16) -> Value {
        json!(format!("{:?}", self.ops[op as usize]))
    }
    fn run(&self, history: &[u16]) -> Option<StepOut> {
        let root = scratch_root();
        let dir = fresh_dir(&root, &format!("c12-{}", DIR_COUNTER.fetch_add(1, Ordering::Relaxed)));
        let out = block_on(async {
            worterbuch::verif::unlock_persistence();
            let subsys = subsystem().await;
            let mut leader = Leader::new().await;
            let fcfg = role_config(false, &dir);
            let mut follower_node: Option<Follower> = None;
            let mut promoted = false;
            let mut class = String::new();
            let mut violation: Option<String> = None;
            let mut known: Vec<(String, String)> = vec![];
            let mut prejoin_regs: BTreeMap<String, Value> = BTreeMap::new();
            // at the follower's latest flush: (its user keys, the leader's content, pre-join registrations)
            type Cut = (BTreeMap<String, Value>, BTreeMap<String, Value>, BTreeMap<String, Value>);
            let mut last_flush: Option<Cut> = None;
            for (i, o) in history.iter().enumerate() {
                let last = i + 1 == history.len();
                if promoted {
                    if last {
                        subsys.request_global_shutdown();
                        return None;
                    }
                    panic!("MACHINERY: op after promotion in prefix");
                }
                match &self.ops[*o as usize] {
                    POp::Api(op) => match leader.api(op).await {
                        Ok(ok) => {
                            class = format!("{}:{}", op.kind(), if ok { "Ok" } else { "Err" });
                            // a registration that is made (again) after the join is forwarded, and a
                            // session end removes the client's registrations
                            match op {
                                // (the leader forwards registration *changes*: setting the same value
                                // again changes nothing and is not forwarded)
                                Op::Set(_, k, v) if ok && prejoin_regs.get(k) != Some(&serde_json::json!({ "p": v })) => {
                                    prejoin_regs.remove(k);
                                }
                                Op::Disconnect(c) => {
                                    let prefix = format!("$SYS/clients/{}/", cid(*c));
                                    prejoin_regs.retain(|k, _| !k.starts_with(&prefix));
                                }
                                _ => {}
                            }
                        }
                        Err(e) => violation = Some(e),
                    },
                    POp::Join => {
                        if follower_node.is_some() {
                            if last {
                                subsys.request_global_shutdown();
                                return None;
                            }
                            panic!("MACHINERY: second join in prefix");
                        }
                        for (k, v) in content_of(&leader.wb) {
                            if k.starts_with("$SYS/clients/") && (k.ends_with("/graveGoods") || k.ends_with("/lastWill")) {
                                prejoin_regs.insert(k, v);
                            }
                        }
                        // the follower node: core from restore() with the orchestrator's configuration
                        let api = dummy_api(&fcfg);
                        let mut fwb = match worterbuch::verif::restore(&subsys, &fcfg, &api).await {
                            Ok(w) => w,
                            Err(e) => {
                                violation = Some(format!("follower restore failed: {e}"));
                                break;
                            }
                        };
                        match leader.join().await {
                            Ok(f) => {
                                // leader.join() synced a scratch core; do the same on the node's core
                                // with the very state the leader exported (taken from that scratch core)
                                let state_line = serde_json::to_string(&worterbuch::verif::LeaderSyncMessage::Init(
                                    worterbuch::verif::StateSync({
                                        let mut w = f.wb;
                                        w.export().0
                                    }, vec![], vec![]),
                                ))
                                .expect("json");
                                let worterbuch::verif::LeaderSyncMessage::Init(state) = serde_json::from_str(&state_line).expect("json") else { unreachable!() };
                                if let Err(e) = follower::initial_sync(state, &mut fwb).await {
                                    violation = Some(format!("initial sync failed: {e}"));
                                }
                                if let Err(e) = worterbuch::verif::flush(&mut fwb).await {
                                    violation = Some(format!("flush after initial sync failed: {e}"));
                                }
                                last_flush = Some((user(&content_of(&fwb)), content_of(&leader.wb), prejoin_regs.clone()));
                                follower_node = Some(Follower { wb: fwb, rx: f.rx, applied: 0 });
                            }
                            Err(e) => violation = Some(e),
                        }
                        class = "join".into();
                    }
                    POp::FollowerSession => {
                        let Some(f) = follower_node.as_mut() else {
                            if last {
                                subsys.request_global_shutdown();
                                return None;
                            }
                            panic!("MACHINERY: follower session without follower in prefix");
                        };
                        f.wb.connected(cid(9), None, &worterbuch_common::Protocol::HTTP).await.ok();
                        f.wb.disconnected(cid(9), None).await.ok();
                        class = "follower-session".into();
                    }
                    POp::Tick => {
                        let Some(f) = follower_node.as_mut() else {
                            if last {
                                subsys.request_global_shutdown();
                                return None;
                            }
                            panic!("MACHINERY: tick without follower in prefix");
                        };
                        if let Err(e) = worterbuch::verif::flush(&mut f.wb).await {
                            violation = Some(format!("periodic flush failed: {e}"));
                        }
                        last_flush = Some((user(&content_of(&f.wb)), content_of(&leader.wb), prejoin_regs.clone()));
                        class = "tick".into();
                    }
                    pop @ (POp::Promote | POp::Kill) => {
                        let graceful = matches!(pop, POp::Promote);
                        let Some(mut f) = follower_node.take() else {
                            if last {
                                subsys.request_global_shutdown();
                                return None;
                            }
                            panic!("MACHINERY: promote without follower in prefix");
                        };
                        promoted = true;
                        class = if graceful { "promote".into() } else { "kill".into() };
                        // every client session died with the old leader
                        let (received, lc, prejoin_regs) = if graceful {
                            (user(&content_of(&f.wb)), content_of(&leader.wb), prejoin_regs.clone())
                        } else {
                            last_flush.clone().expect("MACHINERY: a joined follower has flushed")
                        };
                        let mut gg: Vec<String> = vec![];
                        let mut lw: Vec<(String, Value)> = vec![];
                        let mut gg_pre: Vec<String> = vec![];
                        let mut lw_pre: Vec<(String, Value)> = vec![];
                        for (k, v) in &lc {
                            let pre = prejoin_regs.get(k) == Some(v);
                            if k.starts_with("$SYS/clients/") && k.ends_with("/graveGoods") {
                                let l = serde_json::from_value::<Vec<String>>(v["p"].clone()).unwrap_or_default();
                                if pre { gg_pre.extend(l.clone()); }
                                gg.extend(l);
                            }
                            if k.starts_with("$SYS/clients/") && k.ends_with("/lastWill") {
                                let l = parse_last_will(&v["p"]).unwrap_or_default();
                                if pre { lw_pre.extend(l.clone()); }
                                lw.extend(l);
                            }
                        }
                        // the orchestrator stops the follower (stdin close -> shutdown sequence)
                        if fcfg.use_persistence && graceful {
                            worterbuch::verif::apply_all_grave_goods_and_last_wills(&mut f.wb).await;
                            if let Err(e) = worterbuch::verif::flush(&mut f.wb).await {
                                violation = Some(format!("shutdown flush failed: {e}"));
                            }
                        }
                        drop(f);
                        // ... and starts it again with --leader on the same data directory
                        let lcfg = role_config(true, &dir);
                        let api = dummy_api(&lcfg);
                        let new_leader = match worterbuch::verif::restore(&subsys, &lcfg, &api).await {
                            Ok(w) => w,
                            Err(e) => {
                                violation = Some(format!("restore of the promoted node failed: {e}"));
                                break;
                            }
                        };
                        let got = user(&content_of(&new_leader));
                        let expect = |gg: &[String], lw: &[(String, Value)], hash_parent: bool| {
                            let mut m = received.clone();
                            for g in gg {
                                let p = parse_pattern(g);
                                if !has_inner_multi(&p) {
                                    m.retain(|k, _| !matches(&p, &split(k), hash_parent));
                                }
                            }
                            for (k, v) in lw {
                                if !(k == "$SYS" || k.starts_with("$SYS/")) && parse_key(k).is_ok() && !k.is_empty() {
                                    m.insert(k.clone(), json!({ "p": v }));
                                }
                            }
                            m
                        };
                        let want = expect(&gg, &lw, false);
                        if got != want {
                            // known: registrations made before the join never reach the follower
                            let gg_post: Vec<String> = gg.iter().filter(|g| !gg_pre.contains(g)).cloned().collect();
                            let lw_post: Vec<(String, Value)> = lw.iter().filter(|l| !lw_pre.contains(l)).cloned().collect();
                            let mut explained = None;
                            for (sigs, g, l, hp) in [
                                (vec![SIG_HASH_PARENT], &gg, &lw, true),
                                (vec![SIG_PREJOIN], &gg_post, &lw_post, false),
                                (vec![SIG_PREJOIN, SIG_HASH_PARENT], &gg_post, &lw_post, true),
                            ] {
                                if sigs.iter().all(|s| self.open.contains(*s)) && got == expect(g, l, hp) {
                                    explained = Some(sigs);
                                    break;
                                }
                            }
                            let mut diff = vec![];
                            for k in want.keys().chain(got.keys()).collect::<BTreeSet<_>>() {
                                if want.get(k) != got.get(k) {
                                    diff.push(format!("{k}: expected={:?} promoted node has={:?}", want.get(k), got.get(k)));
                                }
                            }
                            diff.truncate(5);
                            match explained {
                                Some(sigs) => {
                                    for s in sigs {
                                        known.push((s.to_owned(), diff.join("; ")));
                                    }
                                }
                                None => violation = Some(format!("use_persistence(follower)={} {}", fcfg.use_persistence, diff.join("; "))),
                            }
                        }
                    }
                }
                if let Some(f) = follower_node.as_mut() {
                    if let Err(e) = f.drain().await {
                        violation = Some(e);
                    }
                }
                if violation.is_some() {
                    if !last {
                        panic!("MACHINERY: prefix violated on replay: {violation:?}");
                    }
                    break;
                }
            }
            subsys.request_global_shutdown();
            for _ in 0..8 {
                tokio::task::yield_now().await;
            }
            // (the cut of the follower's latest flush is part of the state: a tick changes nothing else)
            let fp = hash_str(&format!(
                "{}|{:?}|{}|{:?}|{:?}",
                worterbuch::verif::snapshot(&leader.wb),
                follower_node.as_ref().map(|f| content_of(&f.wb)),
                promoted,
                prejoin_regs,
                last_flush
            ));
            Some(StepOut {
                fingerprint: if promoted { hash_str(&format!("{history:?}")) } else { fp },
                verdict: match violation {
                    Some(v) => Verdict::Violation(v),
                    None if known.is_empty() => Verdict::Ok,
                    None => Verdict::Known(known),
                },
                class,
            })
        });
        std::fs::remove_dir_all(&dir).ok();
        out
    }
}

fn sys_key(c: C, leaf: &str) -> String {
    format!("$SYS/clients/{}/{leaf}", cid(c))
}

pub fn scenario(open: BTreeSet<String>) -> PromoScenario {
    let s = |x: &str| x.to_owned();
    let mut ops = vec![POp::Join, POp::Tick, POp::Promote, POp::Kill, POp::FollowerSession];
    ops.push(POp::Api(Op::Connect(0)));
    ops.push(POp::Api(Op::Connect(1)));
    ops.push(POp::Api(Op::Disconnect(0)));
    ops.push(POp::Api(Op::Set(0, sys_key(0, "graveGoods"), json!(["g/?"]))));
    ops.push(POp::Api(Op::Set(0, sys_key(0, "lastWill"), json!([{"key": "w", "value": 1}, {"key": "c", "value": 9}]))));
    ops.push(POp::Api(Op::Set(1, sys_key(1, "graveGoods"), json!(["a"]))));
    ops.push(POp::Api(Op::Set(1, sys_key(1, "lastWill"), json!([{"key": "g/x", "value": 2}]))));
    ops.push(POp::Api(Op::Set(0, s("a"), json!(1))));
    ops.push(POp::Api(Op::Set(1, s("g/x"), json!(1))));
    ops.push(POp::Api(Op::Set(1, s("g/y"), json!(1))));
    ops.push(POp::Api(Op::CSet(0, s("c"), json!(1), 0)));
    ops.push(POp::Api(Op::CSet(1, s("c"), json!(2), 1)));
    ops.push(POp::Api(Op::Delete(0, s("a"))));
    ops.push(POp::Api(Op::PDelete(1, s("g/?"))));
    PromoScenario { ops, open }
}
