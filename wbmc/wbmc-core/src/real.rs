//! Driver for the real core (`worterbuch::verif::Worterbuch`), one request at a time.

use crate::ops::*;
use serde_json::{Value, json};
use std::collections::BTreeMap;
use tokio::sync::{mpsc, oneshot};
use worterbuch::{Config, verif::Worterbuch};
use worterbuch_common::{
    ErrorCode, PStateEvent, Protocol, StateEvent, error::WorterbuchError,
};

thread_local! {
    static RT: tokio::runtime::Runtime = tokio::runtime::Builder::new_current_thread()
        .enable_all()
        .start_paused(true)
        .build()
        .expect("runtime");
}

static BASE_CONFIG: std::sync::OnceLock<Config> = std::sync::OnceLock::new();

/// Run a future on this thread's paused current-thread runtime.
pub fn block_on<F: std::future::Future>(f: F) -> F::Output {
    RT.with(|rt| rt.block_on(f))
}

/// Deterministic base configuration: defaults of `Config::new(None)` with a clean environment,
/// no extended monitoring (no wall-clock values in `$SYS`), no endpoints. Must be initialised
/// once from the main thread before any exploration starts.
pub fn init_base_config() {
    for (k, _) in std::env::vars() {
        if k.starts_with("WORTERBUCH_") {
            // SAFETY: called first thing in main, before any other thread exists.
            unsafe { std::env::remove_var(&k) };
        }
    }
    let mut cfg = block_on(Config::new(None)).expect("config");
    cfg.extended_monitoring = false;
    cfg.ws_endpoint = None;
    cfg.tcp_endpoint = None;
    cfg.unix_endpoint = None;
    cfg.use_persistence = false;
    BASE_CONFIG.set(cfg).ok();
}

pub fn base_config() -> Config {
    BASE_CONFIG.get().expect("MACHINERY: base config not initialised").clone()
}

pub fn err_code(e: &WorterbuchError) -> u8 {
    let code: ErrorCode = e.into();
    code as u8
}

pub fn ans_unit(r: Result<(), WorterbuchError>) -> Ans {
    match r {
        Ok(()) => Ans::unit(),
        Err(e) => Ans::Err(err_code(&e)),
    }
}

enum SubRx {
    Key(String, mpsc::Receiver<StateEvent>),
    Pattern(mpsc::Receiver<PStateEvent>),
}

pub struct RealCore {
    pub wb: Worterbuch,
    subs: BTreeMap<SubKey, SubRx>,
    closed: std::collections::BTreeSet<SubKey>,
    ls: BTreeMap<SubKey, mpsc::Receiver<Vec<String>>>,
    ls_closed: std::collections::BTreeSet<SubKey>,
    acqs: Vec<Option<oneshot::Receiver<()>>>,
}

impl RealCore {
    pub fn new() -> RealCore {
        RealCore::with(Worterbuch::with_config(base_config()))
    }

    pub fn with(wb: Worterbuch) -> RealCore {
        RealCore {
            wb,
            subs: BTreeMap::new(),
            closed: Default::default(),
            ls: BTreeMap::new(),
            ls_closed: Default::default(),
            acqs: vec![],
        }
    }

    pub async fn apply(&mut self, op: &Op) -> Obs {
        let answer = self.exec(op).await;
        let mut obs = self.drain();
        obs.answer = Some(answer);
        obs
    }

    async fn exec(&mut self, op: &Op) -> Ans {
        let wb = &mut self.wb;
        match op {
            Op::Connect(c) => ans_unit(wb.connected(cid(*c), None, &Protocol::UNIX).await),
            Op::Disconnect(c) => ans_unit(wb.disconnected(cid(*c), None).await),
            Op::Set(c, k, v) => ans_unit(wb.set(k.clone(), v.clone(), cid(*c), false).await),
            Op::CSet(c, k, v, ver) => {
                ans_unit(wb.cset(k.clone(), v.clone(), *ver, cid(*c), false).await)
            }
            Op::Delete(c, k) => match wb.delete(k.clone(), cid(*c)).await {
                Ok(v) => Ans::ok(v),
                Err(e) => Ans::Err(err_code(&e)),
            },
            Op::PDelete(c, p) => match wb.pdelete(p.clone(), cid(*c)).await {
                Ok(kvs) => Ans::ok(sort_kvs(kvs.into_iter().map(|kv| (kv.key, kv.value)).collect())),
                Err(e) => Ans::Err(err_code(&e)),
            },
            Op::Import(doc) => match wb.import(doc).await {
                // the list of imported keys is an implementation detail of the internal API
                Ok(_) => Ans::unit(),
                Err(e) => Ans::Err(err_code(&e)),
            },
            Op::Publish(k, v) => ans_unit(wb.publish(k.clone(), v.clone()).await),
            Op::SPubInit(c, tid, k) => ans_unit(wb.spub_init(*tid, k.clone(), cid(*c)).await),
            Op::SPub(c, tid, v) => ans_unit(wb.spub(*tid, v.clone(), cid(*c)).await),
            Op::Subscribe(c, tid, k, unique, live) => {
                match wb.subscribe(cid(*c), *tid, k.clone(), *unique, *live).await {
                    Ok((rx, _)) => {
                        self.subs.insert((*c, *tid), SubRx::Key(k.clone(), rx));
                        self.closed.remove(&(*c, *tid));
                        Ans::unit()
                    }
                    Err(e) => Ans::Err(err_code(&e)),
                }
            }
            Op::PSubscribe(c, tid, p, unique, live) => {
                match wb.psubscribe(cid(*c), *tid, p.clone(), *unique, *live).await {
                    Ok((rx, _)) => {
                        self.subs.insert((*c, *tid), SubRx::Pattern(rx));
                        self.closed.remove(&(*c, *tid));
                        Ans::unit()
                    }
                    Err(e) => Ans::Err(err_code(&e)),
                }
            }
            Op::Unsubscribe(c, tid) => ans_unit(wb.unsubscribe(cid(*c), *tid).await),
            Op::SubscribeLs(c, tid, parent) => {
                match wb.subscribe_ls(cid(*c), *tid, parent.clone()).await {
                    Ok((rx, _)) => {
                        self.ls.insert((*c, *tid), rx);
                        self.ls_closed.remove(&(*c, *tid));
                        Ans::unit()
                    }
                    Err(e) => Ans::Err(err_code(&e)),
                }
            }
            Op::UnsubscribeLs(c, tid) => ans_unit(wb.unsubscribe_ls(cid(*c), *tid)),
            Op::DropReceiver(c, tid) => {
                self.subs.remove(&(*c, *tid));
                self.closed.insert((*c, *tid));
                Ans::unit()
            }
            Op::DropLsReceiver(c, tid) => {
                self.ls.remove(&(*c, *tid));
                self.ls_closed.insert((*c, *tid));
                Ans::unit()
            }
            Op::Lock(c, k) => ans_unit(wb.lock(k.clone(), cid(*c)).await),
            Op::AcquireLock(c, k) => match wb.acquire_lock(k.clone(), cid(*c)).await {
                Ok(rx) => {
                    self.acqs.push(Some(rx));
                    Ans::ok(json!(self.acqs.len() - 1))
                }
                Err(e) => Ans::Err(err_code(&e)),
            },
            Op::ReleaseLock(c, k) => ans_unit(wb.release_lock(k.clone(), cid(*c)).await),
        }
    }

    /// Collect everything that was pushed into the harness-held receivers.
    pub fn drain(&mut self) -> Obs {
        let mut obs = Obs::default();
        for (id, rx) in self.subs.iter_mut() {
            if self.closed.contains(id) {
                continue;
            }
            let mut evs = vec![];
            loop {
                match rx {
                    SubRx::Key(key, rx) => match rx.try_recv() {
                        Ok(StateEvent::Value(v)) => evs.push(Ev::Set(key.clone(), v.to_string())),
                        Ok(StateEvent::Deleted(v)) => evs.push(Ev::Del(key.clone(), v.to_string())),
                        Err(mpsc::error::TryRecvError::Empty) => break,
                        Err(mpsc::error::TryRecvError::Disconnected) => {
                            self.closed.insert(*id);
                            obs.closed.insert(*id);
                            break;
                        }
                    },
                    SubRx::Pattern(rx) => match rx.try_recv() {
                        Ok(PStateEvent::KeyValuePairs(kvs)) => {
                            for kv in kvs {
                                evs.push(Ev::Set(kv.key, kv.value.to_string()));
                            }
                        }
                        Ok(PStateEvent::Deleted(kvs)) => {
                            for kv in kvs {
                                evs.push(Ev::Del(kv.key, kv.value.to_string()));
                            }
                        }
                        Err(mpsc::error::TryRecvError::Empty) => break,
                        Err(mpsc::error::TryRecvError::Disconnected) => {
                            self.closed.insert(*id);
                            obs.closed.insert(*id);
                            break;
                        }
                    },
                }
            }
            if !evs.is_empty() {
                obs.events.insert(*id, vec![evs]);
            }
        }
        for (id, rx) in self.ls.iter_mut() {
            if self.ls_closed.contains(id) {
                continue;
            }
            let mut n = 0;
            loop {
                match rx.try_recv() {
                    Ok(mut children) => {
                        children.sort();
                        obs.ls_last.insert(*id, children);
                        n += 1;
                    }
                    Err(mpsc::error::TryRecvError::Empty) => break,
                    Err(mpsc::error::TryRecvError::Disconnected) => {
                        self.ls_closed.insert(*id);
                        obs.ls_closed.insert(*id);
                        break;
                    }
                }
            }
            if n > 0 {
                obs.ls_count.insert(*id, n);
            }
        }
        for (i, slot) in self.acqs.iter_mut().enumerate() {
            if let Some(rx) = slot {
                match rx.try_recv() {
                    Ok(()) => {
                        obs.acq.push((i, true));
                        *slot = None;
                    }
                    Err(oneshot::error::TryRecvError::Empty) => {}
                    Err(oneshot::error::TryRecvError::Closed) => {
                        obs.acq.push((i, false));
                        *slot = None;
                    }
                }
            }
        }
        obs
    }

    pub fn readback(&self, probe: &Probe) -> ReadBack {
        let wb = &self.wb;
        let mut rb = ReadBack {
            get: BTreeMap::new(),
            cget: BTreeMap::new(),
            pget: BTreeMap::new(),
            ls: BTreeMap::new(),
            pls: BTreeMap::new(),
            len: wb.len(),
        };
        for k in &probe.keys {
            rb.get.insert(
                k.clone(),
                match wb.get(k) {
                    Ok(v) => Ans::ok(v),
                    Err(e) => Ans::Err(err_code(&e)),
                },
            );
            rb.cget.insert(
                k.clone(),
                match wb.cget(k) {
                    Ok((v, ver)) => Ans::ok(json!([v, ver])),
                    Err(e) => Ans::Err(err_code(&e)),
                },
            );
        }
        for p in &probe.patterns {
            rb.pget.insert(
                p.clone(),
                match wb.pget(p) {
                    Ok(kvs) => Ans::ok(sort_kvs(kvs.into_iter().map(|kv| (kv.key, kv.value)).collect())),
                    Err(e) => Ans::Err(err_code(&e)),
                },
            );
        }
        for p in &probe.parents {
            rb.ls.insert(
                p.clone().unwrap_or_else(|| "<root>".to_owned()),
                match wb.ls(p) {
                    Ok(c) => Ans::ok(sort_strs(c)),
                    Err(e) => Ans::Err(err_code(&e)),
                },
            );
        }
        for p in &probe.parent_patterns {
            rb.pls.insert(
                p.clone(),
                match wb.pls(&Some(p.clone())) {
                    Ok(c) => Ans::ok(sort_strs(c)),
                    Err(e) => Ans::Err(err_code(&e)),
                },
            );
        }
        rb
    }

    pub fn snapshot(&self) -> Value {
        worterbuch::verif::snapshot(&self.wb)
    }
}
