//! C04 — one wildcard relation for queries, deletes and notifications; exhaustive over all
//! (pattern, key) pairs up to a length bound.

use crate::{model::*, ops::*, real::*};
use mc::{Evidence, Report, util::par_map};
use serde_json::json;
use worterbuch_common::PStateEvent;

fn all_seqs(alpha: &[&str], max_len: usize) -> Vec<Vec<String>> {
    let mut out = vec![];
    let mut layer: Vec<Vec<String>> = vec![vec![]];
    for _ in 0..max_len {
        let mut next = vec![];
        for s in &layer {
            for a in alpha {
                let mut n = s.clone();
                n.push((*a).to_owned());
                next.push(n);
            }
        }
        out.extend(next.iter().cloned());
        layer = next;
    }
    out
}

#[derive(Debug, Clone, PartialEq)]
struct PairResult {
    skipped: bool,
    r0: Option<bool>, // None = pattern must be rejected
    r1: Option<bool>,
    r2: Option<bool>,
    r3: Option<bool>,
    rejected_on_empty_store: [bool; 3],
    gone_after_pdelete: bool,
}

async fn eval_pair(pattern: &str, key: &str) -> PairResult {
    let pat = parse_pattern(pattern);
    let kpath = split(key);
    let r0 = if has_inner_multi(&pat) { None } else { Some(matches(&pat, &kpath, false)) };
    let mut res = PairResult {
        skipped: false,
        r0,
        r1: None,
        r2: None,
        r3: None,
        rejected_on_empty_store: [false; 3],
        gone_after_pdelete: true,
    };
    // empty store: an illegal pattern is rejected regardless of the store content
    {
        let mut core = RealCore::new();
        res.rejected_on_empty_store[0] = core.wb.pget(pattern).is_err();
        res.rejected_on_empty_store[1] = core
            .wb
            .psubscribe(cid(0), 1, pattern.to_owned(), false, true)
            .await
            .is_err();
        res.rejected_on_empty_store[2] = core.wb.pdelete(pattern.to_owned(), cid(INTERNAL)).await.is_err();
    }
    let mut core = RealCore::new();
    if core.wb.set(key.to_owned(), json!(1), cid(INTERNAL), false).await.is_err() {
        res.skipped = true;
        return res;
    }
    // R1: pget
    res.r1 = match core.wb.pget(pattern) {
        Ok(kvs) => Some(kvs.iter().any(|kv| kv.key == key)),
        Err(_) => None,
    };
    // R2: live notification
    res.r2 = match core.wb.psubscribe(cid(0), 1, pattern.to_owned(), false, true).await {
        Ok((mut rx, _)) => {
            core.wb.set(key.to_owned(), json!(2), cid(INTERNAL), false).await.expect("set");
            let mut got = false;
            while let Ok(ev) = rx.try_recv() {
                if let PStateEvent::KeyValuePairs(kvs) = ev {
                    got |= kvs.iter().any(|kv| kv.key == key);
                }
            }
            Some(got)
        }
        Err(_) => None,
    };
    // R3: pdelete
    res.r3 = match core.wb.pdelete(pattern.to_owned(), cid(INTERNAL)).await {
        Ok(kvs) => {
            let listed = kvs.iter().any(|kv| kv.key == key);
            let gone = core.wb.get(&key.to_owned()).is_err();
            res.gone_after_pdelete = listed == gone;
            Some(listed)
        }
        Err(_) => None,
    };
    res
}

#[derive(Debug, Clone, PartialEq, Default)]
struct FullResult {
    stored: Vec<String>,
    pget: Option<Vec<String>>,
    notified: Option<Vec<String>>,
    pdeleted: Option<Vec<String>>,
    remaining: Vec<String>,
}

/// The same three matchers on a store that holds every key of the alphabet at once: values at inner
/// nodes, siblings whose names are prefixes of each other, empty segments next to them.
async fn eval_full(pattern: &str, keys: &[String]) -> FullResult {
    let mut res = FullResult::default();
    let mut core = RealCore::new();
    for k in keys {
        if core.wb.set(k.clone(), json!(1), cid(INTERNAL), false).await.is_ok() {
            res.stored.push(k.clone());
        }
    }
    let sorted = |mut v: Vec<String>| {
        v.sort();
        v
    };
    res.pget = core.wb.pget(pattern).ok().map(|kvs| sorted(kvs.into_iter().map(|kv| kv.key).collect()));
    res.notified = match core.wb.psubscribe(cid(0), 1, pattern.to_owned(), false, true).await {
        Ok((mut rx, _)) => {
            let mut got = vec![];
            for k in &res.stored {
                core.wb.set(k.clone(), json!(2), cid(INTERNAL), false).await.expect("set");
                while let Ok(ev) = rx.try_recv() {
                    if let PStateEvent::KeyValuePairs(kvs) = ev {
                        got.extend(kvs.into_iter().map(|kv| kv.key));
                    }
                }
            }
            Some(sorted(got))
        }
        Err(_) => None,
    };
    res.pdeleted = core.wb.pdelete(pattern.to_owned(), cid(INTERNAL)).await.ok().map(|kvs| sorted(kvs.into_iter().map(|kv| kv.key).collect()));
    for k in &res.stored {
        if core.wb.get(k).is_ok() {
            res.remaining.push(k.clone());
        }
    }
    res
}

fn run_full(rep: &mut Report, patterns: &[String], keys: &[String]) -> (u64, u64, u64) {
    let results = par_map(patterns, |_, p| block_on(eval_full(p, keys)));
    let mut evaluations = 0u64;
    let mut nontrivial = 0u64;
    let mut selfcheck = 0u64;
    for (pi, p) in patterns.iter().enumerate() {
        let r = &results[pi];
        evaluations += r.stored.len() as u64;
        if (pi * 131 + mc::util::seed().unsigned_abs() as usize) % 97 == 0 {
            selfcheck += 1;
            if block_on(eval_full(p, keys)) != *r {
                rep.machinery(format!("determinism self-check failed for pattern {p:?} on the full store"));
            }
        }
        let pat = parse_pattern(p);
        let replay = json!({"pattern": p, "store": "all keys of the alphabet", "pget": r.pget, "notified": r.notified, "pdelete": r.pdeleted});
        if has_inner_multi(&pat) {
            if r.pget.is_some() || r.notified.is_some() || r.pdeleted.is_some() {
                rep.violation(format!("pattern {p:?} has a '#' that is not its last segment but was not rejected on the full store"), replay);
            }
            continue;
        }
        let mut doc: Vec<String> = r.stored.iter().filter(|k| matches(&pat, &split(k), false)).cloned().collect();
        doc.sort();
        if !doc.is_empty() && pat.iter().any(|s| matches!(s, Seg::One | Seg::Multi)) {
            nontrivial += 1;
        }
        let (Some(pget), Some(notified), Some(pdeleted)) = (&r.pget, &r.notified, &r.pdeleted) else {
            rep.violation(format!("legal pattern {p:?} rejected on the full store: pget {:?} psubscribe {:?} pdelete {:?}", r.pget.is_some(), r.notified.is_some(), r.pdeleted.is_some()), replay);
            continue;
        };
        let expected_remaining: Vec<String> = r.stored.iter().filter(|k| pdeleted.binary_search(k).is_err()).cloned().collect();
        if expected_remaining != r.remaining {
            rep.violation(format!("pattern {p:?} on the full store: pdelete's answer and its effect disagree"), replay.clone());
            continue;
        }
        // known deviation: store-side matching lets a trailing '#' match zero levels
        let parent: Vec<String> = if pat.last() == Some(&Seg::Multi) {
            r.stored.iter().filter(|k| matches(&pat[..pat.len() - 1], &split(k), false)).cloned().collect()
        } else {
            vec![]
        };
        let mut with_parent = doc.clone();
        with_parent.extend(parent.iter().cloned());
        with_parent.sort();
        with_parent.dedup();
        if *pget == doc && *notified == doc && *pdeleted == doc {
            continue;
        }
        if !parent.is_empty() && *pget == with_parent && *pdeleted == with_parent && *notified == doc {
            rep.known_or_violation(
                SIG_HASH_PARENT,
                format!("pattern {p:?} on the full store: pget and pdelete also match {parent:?}, notification does not (documented: no match)"),
                replay,
            );
        } else {
            rep.violation(format!("pattern {p:?} on the full store: documented {doc:?}, pget {pget:?}, notified {notified:?}, pdelete {pdeleted:?}"), replay);
        }
    }
    (evaluations, nontrivial, selfcheck)
}

pub fn run(tier: &str) -> i32 {
    let max_len = if tier == "thorough" { 6 } else { 4 };
    // the empty string is not a pattern any stored key can match (the key "" cannot be stored) and
    // pdelete refuses it as an empty key; it is left out
    let patterns: Vec<String> = all_seqs(&["a", "ab", "", "?", "#"], max_len)
        .iter()
        .map(|s| s.join("/"))
        .filter(|p| !p.is_empty())
        .collect();
    let keys: Vec<String> = all_seqs(&["a", "ab", ""], max_len).iter().map(|s| s.join("/")).collect();
    let mut ev = Evidence::new("C04", tier, "exploration");
    let mut rep = Report::new("C04");
    let results = par_map(&patterns, |_, p| {
        block_on(async {
            let mut out = Vec::with_capacity(keys.len());
            for k in &keys {
                out.push(eval_pair(p, k).await);
            }
            out
        })
    });
    let mut evaluations = 0u64;
    let mut skipped = 0u64;
    let mut nontrivial = 0u64;
    let mut matches_total = 0u64;
    let mut rejected = 0u64;
    let mut selfcheck = 0u64;
    for (pi, p) in patterns.iter().enumerate() {
        for (ki, k) in keys.iter().enumerate() {
            let r = &results[pi][ki];
            evaluations += 1;
            if r.skipped {
                skipped += 1;
                continue;
            }
            let has_wild = p.split('/').any(|s| s == "?" || s == "#");
            if has_wild && (r.r0 != Some(false) || r.r1 != Some(false)) {
                nontrivial += 1;
            }
            if r.r0 == Some(true) {
                matches_total += 1;
            }
            if r.r0.is_none() {
                rejected += 1;
            }
            // determinism self-check on a deterministic subset
            if (pi * 131 + ki * 17 + mc::util::seed().unsigned_abs() as usize) % 4001 == 0 {
                let again = block_on(eval_pair(p, k));
                selfcheck += 1;
                if again != *r {
                    rep.machinery(format!("determinism self-check failed for pattern {p:?} key {k:?}"));
                }
            }
            let replay = json!({"pattern": p, "key": k, "documented": r.r0, "pget": r.r1, "notified": r.r2, "pdelete": r.r3});
            if !r.gone_after_pdelete {
                rep.violation(format!("pattern {p:?}, key {k:?}: pdelete's answer and its effect disagree"), replay.clone());
            }
            match r.r0 {
                None => {
                    if r.r1.is_some() || r.r2.is_some() || r.r3.is_some() || r.rejected_on_empty_store != [true; 3] {
                        rep.violation(
                            format!("pattern {p:?} has a '#' that is not its last segment but was not rejected by pget/psubscribe/pdelete (store with key {k:?}: {:?}/{:?}/{:?}; empty store rejected: {:?})", r.r1, r.r2, r.r3, r.rejected_on_empty_store),
                            replay,
                        );
                    }
                }
                Some(doc) => {
                    if r.rejected_on_empty_store != [false; 3] {
                        rep.violation(format!("legal pattern {p:?} rejected on an empty store: {:?}", r.rejected_on_empty_store), replay.clone());
                    }
                    let all = [r.r1, r.r2, r.r3];
                    if all.iter().all(|x| *x == Some(doc)) {
                        continue;
                    }
                    // known deviation: store-side matching lets a trailing '#' match zero levels
                    let pat = parse_pattern(p);
                    let parent_case = !doc
                        && pat.last() == Some(&Seg::Multi)
                        && matches(&pat[..pat.len() - 1], &split(k), false)
                        && r.r1 == Some(true)
                        && r.r3 == Some(true)
                        && r.r2 == Some(false);
                    if parent_case {
                        rep.known_or_violation(
                            SIG_HASH_PARENT,
                            format!("pattern {p:?}, key {k:?}: pget and pdelete match, notification does not (documented: no match)"),
                            replay,
                        );
                    } else {
                        rep.violation(
                            format!("pattern {p:?}, key {k:?}: documented={doc} pget={:?} notified={:?} pdelete={:?}", r.r1, r.r2, r.r3),
                            replay,
                        );
                    }
                }
            }
        }
    }
    let (full_evals, full_nontrivial, full_selfchecks) = run_full(&mut rep, &patterns, &keys);
    ev.set("evaluations", json!(evaluations + full_evals));
    ev.set("distinct_nontrivial", json!(nontrivial));
    ev.set("full_store_pattern_key_evaluations", json!(full_evals));
    ev.set("full_store_patterns_with_wildcard_and_match", json!(full_nontrivial));
    ev.set("full_store_determinism_selfchecks", json!(full_selfchecks));
    ev.set("rule", json!(format!("all {} patterns over {{a,ab,'',?,#}} x all {} keys over {{a,ab,''}} of 1..{} segments, each pair on a fresh core (set, pget, live psubscribe + set, pdelete), plus the three entry points on an empty store; all pairs are distinct by construction; non-trivial = the pattern has a wildcard and the pair matches under the documented relation or under pget, or the pattern must be rejected", patterns.len(), keys.len(), max_len)));
    ev.set("exhaustive", json!(true));
    ev.set("pairs_documented_match", json!(matches_total));
    ev.set("pairs_with_illegal_pattern", json!(rejected));
    ev.set("pairs_skipped_key_not_storable", json!(skipped));
    ev.set("determinism_selfchecks", json!(selfcheck));
    ev.push_sample(json!({"pattern": "a/?/#", "key": "a/ab/", "documented_match": true}));
    ev.push_sample(json!({"pattern": patterns[patterns.len() / 2], "key": keys[keys.len() / 3]}));
    ev.push_sample(json!({"pattern": patterns[patterns.len() - 7], "key": keys[keys.len() - 5]}));
    ev.assume("the key with the single empty segment (the empty string) cannot be stored and is skipped; keys are stored by the server's own client");
    ev.assume("the empty-string pattern is left out: no storable key can match it and pdelete refuses it as an empty key");
    ev.assume("the relation is decided twice: per pair on a store that contains only that key, and per pattern on a store that holds every key of the alphabet at once (values at inner nodes, siblings that are string prefixes of each other, empty segments), where the three result sets must equal the documented set");
    rep.finish(&mut ev)
}
