//! Alphabets and probes of the core-level properties (C01, C03, C05, C06, C07, C08).

use crate::{corescn::CoreScenario, ops::*};
use mc::Known;
use serde_json::json;

pub const A: C = 0;
pub const B: C = 1;
pub const CC: C = 2;

fn s(x: &str) -> String {
    x.to_owned()
}

pub fn store_probe() -> Probe {
    Probe {
        keys: ["a", "b", "a/b", "a/b/c", "a//b", "ä/β", "zzz", "", "a/", "a/?"].iter().map(|k| s(k)).collect(),
        patterns: ["?", "#", "a/?", "a/#", "?/b", "?/#", "a/?/c", "a/#/b", "ä/?", "a//?", "a/b/#", "zzz/#", "zzz/#/b", "?/?/#"]
            .iter()
            .map(|k| s(k))
            .collect(),
        parents: vec![
            None,
            Some(s("a")),
            Some(s("a/b")),
            Some(s("a/b/c")),
            Some(s("a/")),
            Some(s("a//b")),
            Some(s("b")),
            Some(s("ä")),
            Some(s("ä/β")),
            Some(s("zzz")),
            Some(s("a/?")),
        ],
        parent_patterns: ["?", "a/?", "?/b", "?/?", "a", "zzz/?"].iter().map(|k| s(k)).collect(),
    }
}

pub const IMPORT_PLAIN: &str = r#"{"data":{"t":{"a":{"v":5,"t":{"b":{"v":6}}},"n":{"t":{"m":{"v":7}}}}}}"#;
pub const IMPORT_CAS: &str = r#"{"data":{"t":{"a":{"t":{"b":{"v":{"Cas":[8,5]}}}}}}}"#;
pub const IMPORT_DEEP: &str = r#"{"data":{"t":{"ä":{"t":{"β":{"v":"x"}}},"b":{"v":{"Cas":[1,1]}}}}}"#;

/// C01: set, cset, delete, pdelete, import by two clients over a small key/pattern alphabet.
pub fn c01_ops() -> Vec<Op> {
    let mut ops = vec![];
    let keys = ["a", "b", "a/b", "a/b/c", "a//b", "ä/β"];
    for k in keys {
        ops.push(Op::Set(A, s(k), json!(1)));
    }
    for k in ["a", "a/b", "a/b/c"] {
        ops.push(Op::Set(B, s(k), json!(2)));
    }
    for k in keys {
        for ver in [0u64, 1, 2, 7] {
            if (k == "a//b" || k == "ä/β") && ver > 1 {
                continue;
            }
            ops.push(Op::CSet(A, s(k), json!(3), ver));
        }
    }
    for k in keys {
        ops.push(Op::Delete(A, s(k)));
    }
    for p in ["?", "#", "a/?", "a/#", "?/b", "?/#", "a/?/c", "a/#/b", "zzz/#/b"] {
        ops.push(Op::PDelete(B, s(p)));
    }
    for d in [IMPORT_PLAIN, IMPORT_CAS, IMPORT_DEEP] {
        ops.push(Op::Import(s(d)));
    }
    // requests that must be refused
    ops.push(Op::Set(A, s("a/?"), json!(1)));
    ops.push(Op::Set(A, s("#"), json!(1)));
    ops.push(Op::Set(A, s(""), json!(1)));
    ops.push(Op::CSet(A, s("a/#"), json!(1), 0));
    ops.push(Op::Delete(A, s("?")));
    ops.push(Op::Delete(A, s("")));
    ops.push(Op::PDelete(A, s("")));
    ops.push(Op::Import(s("{not json")));
    ops
}

pub fn c01(known: &Known) -> CoreScenario {
    CoreScenario::new("C01", vec![], c01_ops(), store_probe(), known.open_for("C01"))
}

/// C05: C01's mutators (reduced) + ls subscriptions on existing, not yet existing and root parents.
pub fn c05(known: &Known) -> CoreScenario {
    let mut ops = vec![];
    for k in ["a", "b", "a/b", "a/b/c", "a//b"] {
        ops.push(Op::Set(A, s(k), json!(1)));
        ops.push(Op::Delete(A, s(k)));
    }
    for (k, ver) in [("a/b", 0u64), ("a/b", 1), ("a/b/c", 0), ("a/b/c", 3), ("x/y/z", 5), ("b", 2)] {
        ops.push(Op::CSet(A, s(k), json!(3), ver));
    }
    for p in ["?", "#", "a/?", "a/#", "?/b", "a/?/c", "a/#/b"] {
        ops.push(Op::PDelete(B, s(p)));
    }
    for d in [IMPORT_PLAIN, IMPORT_CAS] {
        ops.push(Op::Import(s(d)));
    }
    ops.push(Op::Set(A, s("a/?"), json!(1)));
    let parents = [None, Some("a"), Some("a/b"), Some("zzz"), Some("b"), Some("n"), Some("x/y")];
    for (i, p) in parents.iter().enumerate() {
        ops.push(Op::SubscribeLs(A, 100 + i as u64, p.map(s)));
    }
    ops.push(Op::SubscribeLs(B, 200, Some(s("a"))));
    for i in 0..3u64 {
        ops.push(Op::UnsubscribeLs(A, 100 + i));
    }
    ops.push(Op::UnsubscribeLs(B, 999));
    let mut probe = store_probe();
    // C05 is about child listings: wildcard reads are C01/C04's business
    probe.patterns = vec![s("?"), s("a/?"), s("?/b")];
    probe.parents.push(Some(s("x")));
    probe.parents.push(Some(s("x/y")));
    probe.parents.push(Some(s("n")));
    CoreScenario::new("C05", vec![], ops, probe, known.open_for("C05"))
}
