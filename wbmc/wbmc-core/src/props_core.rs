//! Alphabets and probes of the core-level properties (C01, C03, C05, C06, C07, C08).

use crate::{corescn::CoreScenario, ops::*};
use mc::Known;
use serde_json::json;

pub const A: C = 0;
pub const B: C = 1;
pub const CC: C = 2;

fn s(x: &str) -> String {
    x.to_owned()
}

pub fn store_probe() -> Probe {
    Probe {
        keys: ["a", "ab", "a/b", "a/b/c", "a//b", "ä/β", "zzz", "", "a/", "a/?"].iter().map(|k| s(k)).collect(),
        patterns: ["?", "#", "a/?", "a/#", "?/b", "?/#", "a/?/c", "a/#/b", "ä/?", "a//?", "a/b/#", "zzz/#", "zzz/#/b", "?/?/#", "a/", "?/", "a//", "/a"]
            .iter()
            .map(|k| s(k))
            .collect(),
        parents: vec![
            None,
            Some(s("a")),
            Some(s("a/b")),
            Some(s("a/b/c")),
            Some(s("a/")),
            Some(s("a//b")),
            Some(s("ab")),
            Some(s("ä")),
            Some(s("ä/β")),
            Some(s("zzz")),
            Some(s("a/?")),
        ],
        parent_patterns: ["?", "a/?", "?/b", "?/?", "a", "zzz/?", "a/", "?/"].iter().map(|k| s(k)).collect(),
    }
}

pub const IMPORT_PLAIN: &str = r#"{"data":{"t":{"a":{"v":5,"t":{"b":{"v":6}}},"n":{"t":{"m":{"v":7}}}}}}"#;
pub const IMPORT_CAS: &str = r#"{"data":{"t":{"a":{"t":{"b":{"v":{"Cas":[8,5]}}}}}}}"#;
pub const IMPORT_DEEP: &str = r#"{"data":{"t":{"ä":{"t":{"β":{"v":"x"}}},"ab":{"v":{"Cas":[1,1]}}}}}"#;

/// C01: set, cset, delete, pdelete, import by two clients over a small key/pattern alphabet.
pub fn c01_ops() -> Vec<Op> {
    let mut ops = vec![];
    let keys = ["a", "ab", "a/b", "a/b/c", "a//b", "ä/β"];
    for k in keys {
        ops.push(Op::Set(A, s(k), json!(1)));
    }
    for k in ["a", "a/b", "a/b/c"] {
        ops.push(Op::Set(B, s(k), json!(2)));
    }
    for k in keys {
        for ver in [0u64, 1, 2, 7] {
            if (k == "a//b" || k == "ä/β") && ver > 1 {
                continue;
            }
            ops.push(Op::CSet(A, s(k), json!(3), ver));
        }
    }
    for k in keys {
        ops.push(Op::Delete(A, s(k)));
    }
    for p in ["?", "#", "a/?", "a/#", "?/b", "?/#", "a/?/c", "a/#/b", "zzz/#/b", "a/"] {
        ops.push(Op::PDelete(B, s(p)));
    }
    // a key whose last segment is empty, next to the key without it
    ops.push(Op::Set(A, s("a/"), json!(1)));
    for d in [IMPORT_PLAIN, IMPORT_CAS, IMPORT_DEEP] {
        ops.push(Op::Import(s(d)));
    }
    // requests that must be refused
    ops.push(Op::Set(A, s("a/?"), json!(1)));
    ops.push(Op::Set(A, s("#"), json!(1)));
    ops.push(Op::Set(A, s(""), json!(1)));
    ops.push(Op::CSet(A, s("a/#"), json!(1), 0));
    ops.push(Op::Delete(A, s("?")));
    ops.push(Op::Delete(A, s("")));
    ops.push(Op::PDelete(A, s("")));
    ops.push(Op::Import(s("{not json")));
    ops
}

pub fn c01(known: &Known) -> CoreScenario {
    CoreScenario::new("C01", vec![], c01_ops(), store_probe(), known.open_for("C01"))
}

/// C05: C01's mutators (reduced) + ls subscriptions on existing, not yet existing and root parents.
pub fn c05(known: &Known) -> CoreScenario {
    let mut ops = vec![];
    for k in ["a", "ab", "a/b", "a/b/c", "a//b"] {
        ops.push(Op::Set(A, s(k), json!(1)));
        ops.push(Op::Delete(A, s(k)));
    }
    for (k, ver) in [("a/b", 0u64), ("a/b", 1), ("a/b/c", 0), ("a/b/c", 3), ("x/y/z", 5), ("ab", 2)] {
        ops.push(Op::CSet(A, s(k), json!(3), ver));
    }
    for p in ["?", "#", "a/?", "a/#", "?/b", "a/?/c", "a/#/b"] {
        ops.push(Op::PDelete(B, s(p)));
    }
    for d in [IMPORT_PLAIN, IMPORT_CAS] {
        ops.push(Op::Import(s(d)));
    }
    ops.push(Op::Set(A, s("a/?"), json!(1)));
    let parents = [None, Some("a"), Some("a/b"), Some("zzz"), Some("ab"), Some("n"), Some("x/y")];
    for (i, p) in parents.iter().enumerate() {
        ops.push(Op::SubscribeLs(A, 100 + i as u64, p.map(s)));
    }
    ops.push(Op::SubscribeLs(B, 200, Some(s("a"))));
    for i in 0..3u64 {
        ops.push(Op::UnsubscribeLs(A, 100 + i));
    }
    ops.push(Op::UnsubscribeLs(B, 999));
    ops.push(Op::DropLsReceiver(A, 100));
    ops.push(Op::DropLsReceiver(A, 101));
    let mut probe = store_probe();
    // C05 is about child listings: wildcard reads are C01/C04's business
    probe.patterns = vec![s("?"), s("a/?"), s("?/b")];
    probe.parents.push(Some(s("x")));
    probe.parents.push(Some(s("x/y")));
    probe.parents.push(Some(s("n")));
    CoreScenario::new("C05", vec![], ops, probe, known.open_for("C05"))
}

/// C03: mutators + publish + (p)subscribe/unsubscribe/disconnect at every position.
pub fn c03(known: &Known, max_subs: usize) -> CoreScenario {
    let mut ops = vec![];
    for k in ["a", "a/b", "ab"] {
        ops.push(Op::Set(A, s(k), json!(1)));
        ops.push(Op::Set(A, s(k), json!(2)));
        ops.push(Op::Delete(A, s(k)));
    }
    ops.push(Op::CSet(A, s("a/b"), json!(3), 0));
    ops.push(Op::CSet(A, s("a/b"), json!(1), 1));
    // the stored plain value again, as a compare-and-set: the kind changes, the value does not
    ops.push(Op::CSet(A, s("a/b"), json!(1), 0));
    for p in ["a/?", "a/#"] {
        ops.push(Op::PDelete(A, s(p)));
    }
    // issued by the server's own client: a session end writes $SYS/clients, and an ordinary
    // client's "#" reaching $SYS is C08's business, not C03's
    ops.push(Op::PDelete(INTERNAL, s("#")));
    ops.push(Op::Import(s(IMPORT_PLAIN)));
    ops.push(Op::Import(s(IMPORT_CAS)));
    ops.push(Op::Publish(s("a/b"), json!(9)));
    ops.push(Op::Publish(s("ab"), json!(9)));
    ops.push(Op::SPubInit(A, 50, s("a/b")));
    ops.push(Op::SPub(A, 50, json!(8)));
    // subscriptions: (unique, live_only)
    ops.push(Op::Subscribe(A, 1, s("a/b"), false, false));
    ops.push(Op::Subscribe(A, 2, s("a/b"), true, false));
    ops.push(Op::Subscribe(B, 3, s("a/b"), false, true));
    ops.push(Op::Subscribe(B, 4, s("ab"), true, true));
    ops.push(Op::PSubscribe(B, 5, s("a/?"), false, false));
    ops.push(Op::PSubscribe(B, 6, s("a/#"), false, false));
    ops.push(Op::PSubscribe(B, 7, s("a/#"), true, false));
    ops.push(Op::PSubscribe(A, 8, s("#"), false, true));
    ops.push(Op::PSubscribe(A, 9, s("?/b"), true, true));
    ops.push(Op::PSubscribe(A, 10, s("a/#/b"), false, false));
    // nested patterns: one subscription's pattern is a segment-wise prefix of another's
    ops.push(Op::Subscribe(A, 11, s("a"), false, true));
    ops.push(Op::PSubscribe(B, 12, s("a/b/#"), false, true));
    for (c, tid) in [(A, 1), (A, 2), (B, 5), (B, 6), (A, 8), (A, 11), (B, 77)] {
        ops.push(Op::Unsubscribe(c, tid));
    }
    // the client side of a subscription vanishes without an unsubscribe: the server cleans up when its
    // next send fails; the other subscriptions must not notice
    ops.push(Op::DropReceiver(B, 6));
    ops.push(Op::DropReceiver(A, 1));
    ops.push(Op::Disconnect(A));
    ops.push(Op::Disconnect(B));
    let probe = Probe {
        keys: vec![s("a"), s("a/b"), s("ab"), s("n/m")],
        patterns: vec![s("a/?"), s("a/#"), s("#"), s("?/b")],
        parents: vec![None, Some(s("a"))],
        parent_patterns: vec![],
    };
    let mut sc = CoreScenario::new("C03", vec![], ops, probe, known.open_for("C03"));
    sc.max_subs = max_subs;
    sc
}

/// C06: lock / acquireLock / releaseLock / session end by three clients over nested keys.
pub fn c06(known: &Known, clients: &[C], keys: &[&str], with_data: bool) -> CoreScenario {
    let mut ops = vec![];
    for c in clients {
        for k in keys {
            ops.push(Op::Lock(*c, s(k)));
            ops.push(Op::AcquireLock(*c, s(k)));
            ops.push(Op::ReleaseLock(*c, s(k)));
        }
        ops.push(Op::Disconnect(*c));
        ops.push(Op::Connect(*c));
    }
    ops.push(Op::Lock(A, s("x/?")));
    ops.push(Op::AcquireLock(A, s("#")));
    if with_data {
        // locks are advisory and live beside the data: writes and deletes of locked keys (by the
        // holder and by others) go through and leave the lock where it is
        ops.push(Op::Set(B, s("x"), json!(1)));
        ops.push(Op::Set(A, s("x/y"), json!(1)));
        ops.push(Op::Delete(B, s("x")));
        ops.push(Op::Delete(A, s("x/y")));
        ops.push(Op::PDelete(A, s("x/?")));
        ops.push(Op::PDelete(B, s("?")));
    }
    let setup = clients.iter().map(|c| Op::Connect(*c)).collect();
    let probe = Probe { keys: vec![s("x"), s("x/y")], patterns: vec![], parents: vec![None, Some(s("x"))], parent_patterns: vec![] };
    CoreScenario::new("C06", setup, ops, probe, known.open_for("C06"))
}

/// C03, lazy clean-up: receivers that vanish without an unsubscribe, the server's clean-up when its
/// next send fails, and the unsubscribe / disconnect that follows - a small alphabet explored without
/// de-duplication, because bookkeeping a change might add (counters, caches) is invisible to the
/// snapshot and would otherwise be merged away.
pub fn c03_lazy(known: &Known) -> CoreScenario {
    let ops = vec![
        Op::PSubscribe(A, 8, s("#"), false, true),
        Op::PSubscribe(B, 6, s("a/#"), false, true),
        Op::Subscribe(B, 3, s("a/b"), false, true),
        Op::DropReceiver(B, 6),
        Op::DropReceiver(B, 3),
        Op::Set(A, s("a/b"), json!(1)),
        Op::Set(A, s("a/b"), json!(2)),
        Op::Unsubscribe(B, 6),
        Op::Unsubscribe(B, 3),
        Op::Disconnect(B),
    ];
    let probe = Probe { keys: vec![s("a/b")], patterns: vec![s("#")], parents: vec![None], parent_patterns: vec![] };
    let mut sc = CoreScenario::new("C03", vec![], ops, probe, known.open_for("C03"));
    sc.max_subs = 3;
    sc
}

/// C05, the same for ls subscriptions.
pub fn c05_lazy(known: &Known) -> CoreScenario {
    let ops = vec![
        Op::SubscribeLs(A, 100, None),
        Op::SubscribeLs(B, 101, Some(s("a"))),
        Op::SubscribeLs(B, 102, None),
        Op::DropLsReceiver(B, 101),
        Op::DropLsReceiver(B, 102),
        Op::Set(A, s("a/b"), json!(1)),
        Op::Set(A, s("c"), json!(1)),
        Op::Delete(A, s("a/b")),
        Op::UnsubscribeLs(B, 101),
        Op::UnsubscribeLs(B, 102),
        Op::Disconnect(B),
    ];
    let probe = Probe { keys: vec![s("a/b")], patterns: vec![], parents: vec![None, Some(s("a"))], parent_patterns: vec![] };
    CoreScenario::new("C05", vec![], ops, probe, known.open_for("C05"))
}

/// C06 with four clients on one key: a queue of three waiters, so that a waiter leaving from the
/// front, the middle or the end of the queue can be told apart.
pub fn c06_four(known: &Known) -> CoreScenario {
    let clients: [C; 4] = [0, 1, 2, 3];
    let mut ops = vec![];
    for c in clients {
        ops.push(Op::Lock(c, s("x")));
        ops.push(Op::AcquireLock(c, s("x")));
        ops.push(Op::ReleaseLock(c, s("x")));
        ops.push(Op::Disconnect(c));
    }
    let setup = clients.iter().map(|c| Op::Connect(*c)).collect();
    let probe = Probe { keys: vec![s("x")], patterns: vec![], parents: vec![None], parent_patterns: vec![] };
    CoreScenario::new("C06", setup, ops, probe, known.open_for("C06"))
}

/// C07, the lock part: sessions that hold, wait for, have released and have re-requested locks on two
/// keys end in every order; the per-client lock bookkeeping then contains stale, duplicate and queued
/// entries in every arrangement before the locks that are really held.
pub fn c07_locks(known: &Known) -> CoreScenario {
    let mut ops = vec![];
    for c in [A, B] {
        for k in ["l", "m"] {
            ops.push(Op::Lock(c, s(k)));
            ops.push(Op::AcquireLock(c, s(k)));
            ops.push(Op::ReleaseLock(c, s(k)));
        }
        ops.push(Op::Disconnect(c));
        ops.push(Op::Connect(c));
    }
    ops.push(Op::Set(A, sys_key(A, "graveGoods"), json!(["g/#"])));
    ops.push(Op::Set(B, s("g/x"), json!(1)));
    let setup = vec![Op::Connect(A), Op::Connect(B)];
    let probe = Probe {
        keys: vec![s("g/x"), sys_key(A, "graveGoods")],
        patterns: vec![],
        parents: vec![None],
        parent_patterns: vec![],
    };
    CoreScenario::new("C07", setup, ops, probe, known.open_for("C07"))
}

fn sys_key(c: C, leaf: &str) -> String {
    format!("$SYS/clients/{}/{leaf}", cid(c))
}

/// C07: sessions with grave goods / last wills / subscriptions / publish streams / locks ending
/// in every order.
pub fn c07(known: &Known, three_clients: bool) -> CoreScenario {
    let mut ops = vec![];
    let clients: Vec<C> = if three_clients { vec![A, B, CC] } else { vec![A, B] };
    for c in &clients {
        ops.push(Op::Connect(*c));
        ops.push(Op::Disconnect(*c));
    }
    let other = sys_key(B, "#");
    let ggs = vec![
        json!(["g/#"]),
        json!(["g/x", "h"]),
        json!(["?/x"]),
        json!([other]),
        json!(["#"]),
    ];
    for g in &ggs {
        ops.push(Op::Set(A, sys_key(A, "graveGoods"), g.clone()));
    }
    let lws = vec![
        json!([{"key": "w", "value": 1}]),
        json!([{"key": "g/x", "value": 2}, {"key": "w", "value": 3}]),
        json!([{"key": "$SYS/evil", "value": 1}]),
    ];
    for w in &lws {
        ops.push(Op::Set(A, sys_key(A, "lastWill"), w.clone()));
    }
    ops.push(Op::Set(B, sys_key(B, "graveGoods"), json!(["g/#", "w"])));
    ops.push(Op::Set(B, sys_key(B, "lastWill"), json!([{"key": "h", "value": 4}])));
    if three_clients {
        ops.push(Op::Set(CC, sys_key(CC, "graveGoods"), json!(["h"])));
    }
    ops.push(Op::Set(B, s("g/x"), json!(1)));
    ops.push(Op::Set(B, s("g"), json!(1)));
    ops.push(Op::Set(A, s("h"), json!(1)));
    ops.push(Op::CSet(B, s("w"), json!(5), 0));
    ops.push(Op::Subscribe(B, 1, s("w"), false, false));
    ops.push(Op::PSubscribe(B, 2, s("g/#"), false, false));
    ops.push(Op::PSubscribe(A, 3, s("#"), false, true));
    ops.push(Op::Subscribe(A, 7, s("g"), false, true));
    ops.push(Op::SubscribeLs(A, 4, Some(s("g"))));
    ops.push(Op::SubscribeLs(B, 5, None));
    ops.push(Op::SPubInit(A, 6, s("p")));
    ops.push(Op::SPub(A, 6, json!(1)));
    ops.push(Op::Lock(A, s("l")));
    ops.push(Op::AcquireLock(B, s("l")));
    ops.push(Op::AcquireLock(A, s("l")));
    let mut keys = vec![s("g"), s("g/x"), s("h"), s("w"), s("p"), s("$SYS/clients"), s("$SYS/evil")];
    for c in &clients {
        keys.push(sys_key(*c, "graveGoods"));
        keys.push(sys_key(*c, "lastWill"));
        keys.push(sys_key(*c, "protocol"));
    }
    let probe = Probe {
        keys,
        patterns: vec![s("$SYS/clients/?/graveGoods"), s("$SYS/clients/?/lastWill"), s("g/?"), s("?")],
        parents: vec![None, Some(s("g")), Some(s("$SYS")), Some(s("$SYS/clients"))],
        parent_patterns: vec![],
    };
    let mut sc = CoreScenario::new("C07", vec![], ops, probe, known.open_for("C07"));
    sc.max_subs = 4;
    sc
}

/// C08: every request kind of an ordinary client crossed with every key/pattern shape that can
/// reach `$SYS`; sentinels planted and watched by the server's own client.
pub fn c08(known: &Known) -> CoreScenario {
    let setup = vec![
        Op::Set(INTERNAL, s("$SYS/s1"), json!("srv")),
        Op::Set(INTERNAL, s("$SYS/locks/x"), json!("srv")),
        Op::Set(INTERNAL, s("u"), json!(0)),
        Op::Connect(B),
        Op::Set(B, sys_key(B, "graveGoods"), json!(["q"])),
        Op::Connect(A),
        Op::PSubscribe(INTERNAL, 900, s("$SYS/#"), false, true),
        Op::Subscribe(INTERNAL, 901, s("$SYS/s1"), false, true),
        Op::PSubscribe(INTERNAL, 902, s("#"), false, true),
    ];
    let shapes: Vec<String> = vec![
        s("$SYS"),
        s("$SYS/s1"),
        s("$SYS/?"),
        s("$SYS/#"),
        s("?/s1"),
        s("?/?"),
        s("#"),
        s("?/#"),
        sys_key(B, "#"),
        sys_key(B, "graveGoods"),
        sys_key(A, "graveGoods"),
        sys_key(A, "protocol"),
        sys_key(A, "clientName"),
        // every length around the client's own subtree: the guard indexes into the split key
        s("$SYS/clients"),
        format!("$SYS/clients/{}", cid(A)),
        format!("$SYS/clients/{}", cid(B)),
        format!("$SYS/clients/{}/", cid(A)),
        format!("$SYS/clients/{}/graveGoods/x", cid(A)),
        format!("$SYS/clients/{}/?", cid(A)),
        s("$SYS/clients/?"),
        s("$SYS/"),
        // other spellings of the client's own id are other keys, not its own entries
        format!("$SYS/clients/{}/clientName", cid(A).simple()),
        format!("$SYS/clients/{{{}}}/graveGoods", cid(A)),
        format!("$SYS/clients/urn:uuid:{}/lastWill", cid(A)),
    ];
    let mut ops = vec![];
    for k in &shapes {
        ops.push(Op::Set(A, k.clone(), json!(["x"])));
        ops.push(Op::CSet(A, k.clone(), json!(["x"]), 0));
        ops.push(Op::Delete(A, k.clone()));
        ops.push(Op::PDelete(A, k.clone()));
        ops.push(Op::Publish(k.clone(), json!("fake")));
        ops.push(Op::SPubInit(A, 60, k.clone()));
        ops.push(Op::Lock(A, k.clone()));
    }
    ops.push(Op::SPub(A, 60, json!("fake")));
    ops.push(Op::AcquireLock(A, s("$SYS/s1")));
    ops.push(Op::ReleaseLock(A, s("$SYS/s1")));
    for g in [json!(["#"]), json!(["$SYS/#"]), json!(["?/s1"]), json!(["$SYS/s1", "u"])] {
        ops.push(Op::Set(A, sys_key(A, "graveGoods"), g));
    }
    ops.push(Op::Set(A, sys_key(A, "lastWill"), json!([{"key": "$SYS/s1", "value": "evil"}, {"key": "u", "value": 1}])));
    // malformed registrations: refused, and a refused request must leave nothing behind
    ops.push(Op::Set(A, sys_key(A, "lastWill"), json!(["x"])));
    ops.push(Op::CSet(A, sys_key(A, "graveGoods"), json!({"a": 1}), 0));
    ops.push(Op::Disconnect(A));
    ops.push(Op::Connect(A));
    let probe = Probe {
        keys: vec![
            s("$SYS/s1"),
            s("$SYS/locks/x"),
            s("$SYS/clients"),
            s("$SYS"),
            s("u"),
            sys_key(B, "graveGoods"),
            sys_key(B, "protocol"),
            sys_key(A, "graveGoods"),
            sys_key(A, "lastWill"),
            sys_key(A, "clientName"),
            sys_key(A, "protocol"),
        ],
        patterns: vec![s("$SYS/?"), s("$SYS/clients/?/?")],
        parents: vec![None, Some(s("$SYS")), Some(s("$SYS/clients"))],
        parent_patterns: vec![],
    };
    CoreScenario::new("C08", setup, ops, probe, known.open_for("C08"))
}
