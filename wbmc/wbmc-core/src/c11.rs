//! C11 — a follower converges to the leader's data.
//!
//! The real branch bodies of the leader loop (`try_forward_api_call`,
//! `try_forward_follower_connected`, `try_forward_grave_goods_change`,
//! `try_forward_last_will_change`) and of the follower (`initial_sync`, `process_leader_message`,
//! `process_api_call`) are called one event at a time; the scheduler honours the leader loop's
//! `biased` priority (pending registration events are pumped before the next join / request).

use crate::{model::*, ops::*, persist::content_of, real::*};
use mc::{Scenario, StepOut, Verdict, util::hash_str};
use serde_json::{Value, json};
use std::collections::{BTreeMap, BTreeSet};
use tokio::sync::{mpsc, oneshot};
use tracing::Span;
use worterbuch::verif::{ClientWriteCommand, LeaderSyncMessage, StateSync, WbFunction, Worterbuch, follower, leader};
use worterbuch_common::{PStateEvent, Protocol, error::WorterbuchError};

#[derive(Clone, Debug)]
pub enum LOp {
    Api(Op),
    Join,
    /// a write offered to follower 0 directly
    FollowerWrite(Op),
}

pub struct ReplScenario {
    pub ops: Vec<LOp>,
    pub max_followers: usize,
    pub open: BTreeSet<String>,
}

pub struct Leader {
    pub wb: Worterbuch,
    pub txs: leader::FollowerTxs,
    pub dead: Vec<usize>,
    pub tx_id: usize,
    pub gg_rx: mpsc::Receiver<PStateEvent>,
    pub lw_rx: mpsc::Receiver<PStateEvent>,
}

pub struct Follower {
    pub wb: Worterbuch,
    pub rx: mpsc::Receiver<ClientWriteCommand>,
    pub applied: usize,
}

pub const SIG_DISCONNECT: &str = "session_end_effects_not_replicated";
pub const SIG_PREJOIN: &str = "pre_join_registrations_not_synced";
pub const SIG_IMPORT_CAS: &str = "imported_cas_version_not_replicated";

impl Leader {
    pub async fn new() -> Leader {
        let mut wb = Worterbuch::with_config(base_config());
        wb.set("$SYS/mode".into(), json!("LEADER"), cid(INTERNAL), true).await.expect("mode");
        let (gg_rx, _) = wb
            .psubscribe(cid(INTERNAL), 0, "$SYS/clients/?/graveGoods".into(), true, false)
            .await
            .expect("gg sub");
        let (lw_rx, _) = wb
            .psubscribe(cid(INTERNAL), 0, "$SYS/clients/?/lastWill".into(), true, false)
            .await
            .expect("lw sub");
        Leader { wb, txs: vec![], dead: vec![], tx_id: 0, gg_rx, lw_rx }
    }

    /// What the biased loop does before it looks at joins and requests again.
    pub async fn pump(&mut self) {
        loop {
            if let Ok(ev) = self.gg_rx.try_recv() {
                leader::try_forward_grave_goods_change(Some(ev), &mut self.txs, &mut self.dead).await.ok();
                continue;
            }
            if let Ok(ev) = self.lw_rx.try_recv() {
                leader::try_forward_last_will_change(Some(ev), &mut self.txs, &mut self.dead).await.ok();
                continue;
            }
            break;
        }
    }

    /// One request through the leader's request branch; returns whether it was accepted.
    pub async fn api(&mut self, op: &Op) -> Result<bool, String> {
        macro_rules! call {
            ($f:expr, $rx:expr) => {{
                leader::try_forward_api_call(Some($f), &mut self.wb, &mut self.txs, &mut self.dead)
                    .await
                    .map_err(|e| format!("leader request branch failed: {e}"))?;
                match $rx.try_recv() {
                    Ok(r) => r.is_ok(),
                    Err(_) => return Err("the leader did not answer the request".to_owned()),
                }
            }};
        }
        let ok = match op {
            Op::Set(c, k, v) => {
                let (tx, mut rx) = oneshot::channel();
                call!(WbFunction::Set(k.clone(), v.clone(), cid(*c), tx, Span::none()), rx)
            }
            Op::CSet(c, k, v, ver) => {
                let (tx, mut rx) = oneshot::channel();
                call!(WbFunction::CSet(k.clone(), v.clone(), *ver, cid(*c), tx), rx)
            }
            Op::Delete(c, k) => {
                let (tx, mut rx) = oneshot::channel();
                call!(WbFunction::Delete(k.clone(), cid(*c), tx), rx)
            }
            Op::PDelete(c, p) => {
                let (tx, mut rx) = oneshot::channel();
                call!(WbFunction::PDelete(p.clone(), cid(*c), tx), rx)
            }
            Op::Import(doc) => {
                let (tx, mut rx) = oneshot::channel();
                call!(WbFunction::Import(doc.clone(), tx), rx)
            }
            Op::Connect(c) => {
                let (tx, mut rx) = oneshot::channel();
                call!(WbFunction::Connected(cid(*c), None, Protocol::TCP, tx), rx)
            }
            Op::Disconnect(c) => {
                leader::try_forward_api_call(
                    Some(WbFunction::Disconnected(cid(*c), None)),
                    &mut self.wb,
                    &mut self.txs,
                    &mut self.dead,
                )
                .await
                .map_err(|e| format!("leader request branch failed: {e}"))?;
                true
            }
            other => panic!("MACHINERY: unsupported leader op {other:?}"),
        };
        self.pump().await;
        Ok(ok)
    }

    pub async fn join(&mut self) -> Result<Follower, String> {
        let (state_tx, mut state_rx) = oneshot::channel();
        let cfg = base_config();
        leader::try_forward_follower_connected(Some(state_tx), &mut self.wb, &mut self.txs, &cfg, &mut self.tx_id)
            .await
            .map_err(|e| format!("follower-connected branch failed: {e}"))?;
        let (state, rx): (StateSync, mpsc::Receiver<ClientWriteCommand>) =
            state_rx.try_recv().map_err(|_| "no state sync produced".to_owned())?;
        // over the wire the state travels as one JSON line
        let line = serde_json::to_string(&LeaderSyncMessage::Init(state)).map_err(|e| e.to_string())?;
        let LeaderSyncMessage::Init(state) = serde_json::from_str(&line).map_err(|e| e.to_string())? else {
            return Err("init message decodes to something else".into());
        };
        let mut fwb = Worterbuch::with_config(base_config());
        follower::initial_sync(state, &mut fwb).await.map_err(|e| format!("initial sync failed: {e}"))?;
        self.pump().await;
        Ok(Follower { wb: fwb, rx, applied: 0 })
    }
}

impl Follower {
    pub async fn drain(&mut self) -> Result<(), String> {
        while let Ok(cmd) = self.rx.try_recv() {
            let line = serde_json::to_string(&LeaderSyncMessage::Mut(cmd)).map_err(|e| e.to_string())?;
            let msg: LeaderSyncMessage = serde_json::from_str(&line).map_err(|e| e.to_string())?;
            follower::process_leader_message(msg, &mut self.wb)
                .await
                .map_err(|e| format!("follower failed to process a leader message: {e}"))?;
            self.applied += 1;
        }
        Ok(())
    }
}

fn user(c: &BTreeMap<String, Value>) -> BTreeMap<String, Value> {
    c.iter().filter(|(k, _)| *k != "$SYS" && !k.starts_with("$SYS/")).map(|(k, v)| (k.clone(), v.clone())).collect()
}

fn registrations(c: &BTreeMap<String, Value>) -> BTreeMap<String, Value> {
    c.iter()
        .filter(|(k, _)| k.starts_with("$SYS/clients/") && (k.ends_with("/graveGoods") || k.ends_with("/lastWill")) && k.split('/').count() == 4)
        .map(|(k, v)| (k.clone(), v.clone()))
        .collect()
}

impl Scenario for ReplScenario {
    fn num_ops(&self) -> usize {
        self.ops.len()
    }
    fn op_json(&self, op: u16) -> Value {
        json!(format!("{:?}", self.ops[op as usize]))
    }
    fn run(&self, history: &[u16]) -> Option<StepOut> {
        block_on(async {
            let mut leader = Leader::new().await;
            let mut followers: Vec<Follower> = vec![];
            // keys whose divergence is attributed to an open finding (signature -> keys / patterns)
            let mut tainted: BTreeMap<&'static str, Vec<Vec<Seg>>> = BTreeMap::new();
            let mut tainted_regs: BTreeSet<String> = BTreeSet::new();
            let mut class = String::new();
            let mut violation: Option<String> = None;
            for (i, o) in history.iter().enumerate() {
                let last = i + 1 == history.len();
                let op = &self.ops[*o as usize];
                match op {
                    LOp::Join => {
                        if followers.len() >= self.max_followers {
                            if last {
                                return None;
                            }
                            panic!("MACHINERY: join not enabled in prefix");
                        }
                        // registrations existing now are "pre-join" for this follower
                        for k in registrations(&content_of(&leader.wb)).keys() {
                            tainted_regs.insert(k.clone());
                        }
                        match leader.join().await {
                            Ok(f) => followers.push(f),
                            Err(e) => violation = Some(e),
                        }
                        class = "join".into();
                    }
                    LOp::Api(op) => {
                        // causes of known deviations
                        if let Op::Disconnect(c) = op {
                            let content = content_of(&leader.wb);
                            let gg = content.get(&format!("$SYS/clients/{}/graveGoods", cid(*c)));
                            let lw = content.get(&format!("$SYS/clients/{}/lastWill", cid(*c)));
                            if let Some(g) = gg.and_then(|v| serde_json::from_value::<Vec<String>>(v["p"].clone()).ok()) {
                                for p in g {
                                    tainted.entry(SIG_DISCONNECT).or_default().push(parse_pattern(&p));
                                }
                            }
                            if let Some(l) = lw.and_then(|v| parse_last_will(&v["p"])) {
                                for (k, _) in l {
                                    tainted.entry(SIG_DISCONNECT).or_default().push(parse_pattern(&k));
                                }
                            }
                        }
                        if let Op::Import(doc) = op {
                            if let Ok(v) = serde_json::from_str::<Value>(doc) {
                                let mut entries = vec![];
                                collect_import(&v["data"], &mut vec![], &mut entries);
                                for (p, e) in entries {
                                    if matches!(e, Entry::Cas(..)) {
                                        tainted.entry(SIG_IMPORT_CAS).or_default().push(p.iter().map(|s| Seg::Lit(s.clone())).collect());
                                    }
                                }
                            }
                        }
                        match leader.api(op).await {
                            Ok(ok) => class = format!("{}:{}", op.kind(), if ok { "Ok" } else { "Err" }),
                            Err(e) => violation = Some(e),
                        }
                    }
                    LOp::FollowerWrite(op) => {
                        let Some(f) = followers.first_mut() else {
                            if last {
                                return None;
                            }
                            panic!("MACHINERY: follower write not enabled in prefix");
                        };
                        let before = worterbuch::verif::snapshot(&f.wb);
                        let refused = match op {
                            Op::Set(c, k, v) => {
                                let (tx, mut rx) = oneshot::channel();
                                follower::process_api_call(&mut f.wb, WbFunction::Set(k.clone(), v.clone(), cid(*c), tx, Span::none())).await;
                                matches!(rx.try_recv(), Ok(Err(WorterbuchError::NotLeader)))
                            }
                            Op::CSet(c, k, v, ver) => {
                                let (tx, mut rx) = oneshot::channel();
                                follower::process_api_call(&mut f.wb, WbFunction::CSet(k.clone(), v.clone(), *ver, cid(*c), tx)).await;
                                matches!(rx.try_recv(), Ok(Err(WorterbuchError::NotLeader)))
                            }
                            Op::Delete(c, k) => {
                                let (tx, mut rx) = oneshot::channel();
                                follower::process_api_call(&mut f.wb, WbFunction::Delete(k.clone(), cid(*c), tx)).await;
                                matches!(rx.try_recv(), Ok(Err(WorterbuchError::NotLeader)))
                            }
                            Op::PDelete(c, p) => {
                                let (tx, mut rx) = oneshot::channel();
                                follower::process_api_call(&mut f.wb, WbFunction::PDelete(p.clone(), cid(*c), tx)).await;
                                matches!(rx.try_recv(), Ok(Err(WorterbuchError::NotLeader)))
                            }
                            Op::Import(doc) => {
                                let (tx, mut rx) = oneshot::channel();
                                follower::process_api_call(&mut f.wb, WbFunction::Import(doc.clone(), tx)).await;
                                matches!(rx.try_recv(), Ok(Err(WorterbuchError::NotLeader)))
                            }
                            Op::Publish(k, v) => {
                                let (tx, mut rx) = oneshot::channel();
                                follower::process_api_call(&mut f.wb, WbFunction::Publish(k.clone(), v.clone(), tx)).await;
                                matches!(rx.try_recv(), Ok(Err(WorterbuchError::NotLeader)))
                            }
                            Op::Lock(c, k) => {
                                let (tx, mut rx) = oneshot::channel();
                                follower::process_api_call(&mut f.wb, WbFunction::Lock(k.clone(), cid(*c), tx)).await;
                                matches!(rx.try_recv(), Ok(Err(WorterbuchError::NotLeader)))
                            }
                            other => panic!("MACHINERY: unsupported follower write {other:?}"),
                        };
                        class = format!("followerWrite:{}", op.kind());
                        if !refused {
                            violation = Some(format!("the follower did not refuse {op:?} with NotLeader"));
                        } else if worterbuch::verif::snapshot(&f.wb) != before {
                            violation = Some(format!("the refused write {op:?} changed the follower"));
                        }
                    }
                }
                for f in followers.iter_mut() {
                    if let Err(e) = f.drain().await {
                        violation = Some(e);
                    }
                }
                if violation.is_some() {
                    if !last {
                        panic!("MACHINERY: prefix violated on replay: {violation:?}");
                    }
                    break;
                }
            }
            // quiescent: everything the leader sent has been applied
            let lc = content_of(&leader.wb);
            let l_user = user(&lc);
            let l_regs = registrations(&lc);
            let mut known: Vec<(String, String)> = vec![];
            let mut fps = vec![];
            if violation.is_none() {
                for (fi, f) in followers.iter().enumerate() {
                    let fc = content_of(&f.wb);
                    let f_user = user(&fc);
                    let f_regs = registrations(&fc);
                    fps.push(format!("{f_user:?}{f_regs:?}"));
                    for k in l_user.keys().chain(f_user.keys()).collect::<BTreeSet<_>>() {
                        if l_user.get(k) == f_user.get(k) {
                            continue;
                        }
                        let path = split(k);
                        let sig = tainted
                            .iter()
                            .find(|(s, pats)| self.open.contains(**s) && pats.iter().any(|p| matches(p, &path, true)))
                            .map(|(s, _)| *s);
                        let what = format!("follower {fi}: key {k}: leader={:?} follower={:?}", l_user.get(k), f_user.get(k));
                        match sig {
                            Some(s) => known.push((s.to_owned(), what)),
                            None => {
                                violation = Some(what);
                                break;
                            }
                        }
                    }
                    for k in l_regs.keys().chain(f_regs.keys()).collect::<BTreeSet<_>>() {
                        if l_regs.get(k) == f_regs.get(k) {
                            continue;
                        }
                        let what = format!("follower {fi}: registration {k}: leader={:?} follower={:?}", l_regs.get(k), f_regs.get(k));
                        if self.open.contains(SIG_PREJOIN) && tainted_regs.contains(k) {
                            known.push((SIG_PREJOIN.to_owned(), what));
                        } else if violation.is_none() {
                            violation = Some(what);
                        }
                    }
                }
            }
            let fp = hash_str(&format!(
                "{}|{:?}|{:?}|{:?}",
                worterbuch::verif::snapshot(&leader.wb),
                fps,
                tainted,
                tainted_regs
            ));
            Some(StepOut {
                fingerprint: fp,
                verdict: match violation {
                    Some(v) => Verdict::Violation(v),
                    None if known.is_empty() => Verdict::Ok,
                    None => {
                        known.sort();
                        known.dedup_by(|a, b| a.0 == b.0);
                        Verdict::Known(known)
                    }
                },
                class,
            })
        })
    }
}

fn sys_key(c: C, leaf: &str) -> String {
    format!("$SYS/clients/{}/{leaf}", cid(c))
}

pub fn scenario(open: BTreeSet<String>, followers: usize) -> ReplScenario {
    let s = |x: &str| x.to_owned();
    let mut ops = vec![LOp::Join];
    for c in [0u8, 1] {
        ops.push(LOp::Api(Op::Connect(c)));
        ops.push(LOp::Api(Op::Disconnect(c)));
    }
    ops.push(LOp::Api(Op::Set(0, sys_key(0, "graveGoods"), json!(["g/?"]))));
    ops.push(LOp::Api(Op::Set(0, sys_key(0, "lastWill"), json!([{"key": "w", "value": 1}]))));
    ops.push(LOp::Api(Op::Set(1, sys_key(1, "graveGoods"), json!(["a"]))));
    ops.push(LOp::Api(Op::Set(0, s("a"), json!(1))));
    ops.push(LOp::Api(Op::Set(1, s("a"), json!(2))));
    ops.push(LOp::Api(Op::Set(1, s("g/x"), json!(1))));
    // a user key next to the $SYS subtree that the state export strips
    ops.push(LOp::Api(Op::Set(1, s("$SYSx/k"), json!(1))));
    ops.push(LOp::Api(Op::Set(0, s("a/?"), json!(1))));
    ops.push(LOp::Api(Op::CSet(0, s("c"), json!(1), 0)));
    ops.push(LOp::Api(Op::CSet(1, s("c"), json!(2), 1)));
    ops.push(LOp::Api(Op::CSet(1, s("c"), json!(3), 7)));
    // accepted compare-and-sets that leave the value as it is: only the version moves
    ops.push(LOp::Api(Op::CSet(1, s("c"), json!(1), 1)));
    ops.push(LOp::Api(Op::CSet(0, s("a"), json!(1), 0)));
    ops.push(LOp::Api(Op::Set(0, s("c"), json!(9))));
    ops.push(LOp::Api(Op::Delete(0, s("a"))));
    ops.push(LOp::Api(Op::Delete(0, s("zzz"))));
    ops.push(LOp::Api(Op::PDelete(1, s("g/?"))));
    ops.push(LOp::Api(Op::PDelete(1, s("?"))));
    ops.push(LOp::Api(Op::Import(s(r#"{"data":{"t":{"a":{"v":5},"i":{"t":{"p":{"v":"x"}}}}}}"#))));
    ops.push(LOp::Api(Op::Import(s(r#"{"data":{"t":{"c":{"v":{"Cas":[8,5]}},"n":{"v":{"Cas":[1,1]}}}}}"#))));
    // the stored value again, but as a plain entry over a CAS one / as a fresh key: only the kind changes
    ops.push(LOp::Api(Op::Import(s(r#"{"data":{"t":{"c":{"v":1}}}}"#))));
    ops.push(LOp::FollowerWrite(Op::Set(0, s("a"), json!(77))));
    ops.push(LOp::FollowerWrite(Op::Delete(0, s("a"))));
    ops.push(LOp::FollowerWrite(Op::PDelete(0, s("#"))));
    ops.push(LOp::FollowerWrite(Op::CSet(0, s("c"), json!(77), 0)));
    ops.push(LOp::FollowerWrite(Op::Import(s(r#"{"data":{"t":{"a":{"v":5}}}}"#))));
    ops.push(LOp::FollowerWrite(Op::Publish(s("a"), json!(1))));
    ops.push(LOp::FollowerWrite(Op::Lock(0, s("a"))));
    ReplScenario { ops, max_followers: followers, open }
}
