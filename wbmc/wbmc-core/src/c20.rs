//! C20 — the client library pairs answers with calls and sends what it was given.
//!
//! A real client (`worterbuch_client::try_connect`, unix transport) talks to the real per-connection
//! session (`serve()`) over a unix socket inside one paused current-thread runtime. The core task
//! processes a request only when the explorer grants a permit, and every user task submits its
//! next call only when released, so the explorer enumerates the interleavings of "task i submits"
//! and "server processes the next queued request".

use crate::{model::*, ops::*, persist::scratch_root, real::*};
use mc::{Scenario, StepOut, Verdict, util::hash_str};
use serde_json::{Value, json};
use std::{
    collections::{BTreeMap, VecDeque},
    sync::{
        Arc, Mutex,
        atomic::{AtomicBool, AtomicU64, AtomicUsize, Ordering},
    },
    time::Duration,
};
use tokio::{
    net::UnixListener,
    sync::{Semaphore, mpsc, oneshot},
};
use tosub::SubsystemHandle;
use worterbuch::{server::CloneableWbApi, verif::{WbFunction, Worterbuch}};
use worterbuch_client::Worterbuch as Client;
use worterbuch_common::error::ConnectionError;

static COUNTER: AtomicU64 = AtomicU64::new(0);

pub struct Gate {
    armed: AtomicBool,
    pending: AtomicUsize,
    permits: Semaphore,
    processed: Mutex<Vec<String>>,
}

fn describe(f: &WbFunction) -> String {
    match f {
        WbFunction::Get(k, _) => format!("get {k}"),
        WbFunction::CGet(k, _) => format!("cget {k}"),
        WbFunction::Set(k, v, ..) => format!("set {k}={v}"),
        WbFunction::CSet(k, v, ver, ..) => format!("cset {k}={v}@{ver}"),
        WbFunction::SPubInit(t, k, ..) => format!("spubInit {t} {k}"),
        WbFunction::SPub(t, v, ..) => format!("spub {t} {v}"),
        WbFunction::Publish(k, v, _) => format!("publish {k}={v}"),
        WbFunction::Ls(p, _) => format!("ls {p:?}"),
        WbFunction::PLs(p, _) => format!("pls {p:?}"),
        WbFunction::PGet(p, _) => format!("pget {p}"),
        WbFunction::Subscribe(_, t, k, u, l, _) => format!("subscribe {t} {k} {u} {l}"),
        WbFunction::PSubscribe(_, t, k, u, l, _) => format!("psubscribe {t} {k} {u} {l}"),
        WbFunction::SubscribeLs(_, t, p, _) => format!("subscribeLs {t} {p:?}"),
        WbFunction::Unsubscribe(_, t, _) => format!("unsubscribe {t}"),
        WbFunction::UnsubscribeLs(_, t, _) => format!("unsubscribeLs {t}"),
        WbFunction::Delete(k, ..) => format!("delete {k}"),
        WbFunction::PDelete(p, ..) => format!("pdelete {p}"),
        WbFunction::Lock(k, ..) => format!("lock {k}"),
        WbFunction::AcquireLock(k, ..) => format!("acquireLock {k}"),
        WbFunction::ReleaseLock(k, ..) => format!("releaseLock {k}"),
        WbFunction::Connected(..) => "connected".into(),
        WbFunction::ProtocolSwitched(..) => "protocolSwitched".into(),
        WbFunction::Disconnected(..) => "disconnected".into(),
        WbFunction::Config(_) => "config".into(),
        WbFunction::Export(..) => "export".into(),
        WbFunction::Import(..) => "import".into(),
        WbFunction::Len(_) => "len".into(),
    }
}

pub struct Rig {
    pub gate: Arc<Gate>,
    pub client: Client,
    pub snap_tx: mpsc::Sender<oneshot::Sender<Value>>,
    pub subsys: SubsystemHandle,
    pub sock: std::path::PathBuf,
}

pub async fn spin(n: usize) {
    for _ in 0..n {
        tokio::task::yield_now().await;
    }
}

async fn spin_until(mut cond: impl FnMut() -> bool, max: usize) -> bool {
    for _ in 0..max {
        if cond() {
            return true;
        }
        tokio::task::yield_now().await;
    }
    cond()
}

async fn subsystem() -> SubsystemHandle {
    let (tx, mut rx) = mpsc::channel::<SubsystemHandle>(1);
    tokio::spawn(async move {
        tosub::build_root("wbmc")
            .catch_no_signals()
            .no_shutdown_on_stdin_close()
            .start(move |s: SubsystemHandle| async move {
                tx.send(s.clone()).await.ok();
                s.shutdown_requested().await;
                Ok::<(), miette::Error>(())
            })
            .await
            .ok();
    });
    loop {
        if let Ok(s) = rx.try_recv() {
            return s;
        }
        tokio::task::yield_now().await;
    }
}

pub fn new_runtime() -> tokio::runtime::Runtime {
    tokio::runtime::Builder::new_current_thread()
        .enable_all()
        .event_interval(1)
        .start_paused(true)
        .build()
        .expect("runtime")
}

impl Rig {
    /// Real core task (gated), real unix-socket session, real client.
    pub async fn new() -> Result<Rig, String> {
        let cfg = base_config();
        let (api_tx, mut api_rx) = mpsc::channel::<WbFunction>(cfg.channel_buffer_size);
        let (snap_tx, mut snap_rx) = mpsc::channel::<oneshot::Sender<Value>>(1);
        let api = CloneableWbApi::new(api_tx, cfg.clone());
        let gate = Arc::new(Gate {
            armed: AtomicBool::new(false),
            pending: AtomicUsize::new(0),
            permits: Semaphore::new(0),
            processed: Mutex::new(vec![]),
        });
        let g = gate.clone();
        let mut wb = Worterbuch::with_config(cfg.clone());
        tokio::spawn(async move {
            let mut held: Option<WbFunction> = None;
            loop {
                if let Some(f) = held.take() {
                    // a request waits for the explorer's permit; snapshots are still served
                    tokio::select! {
                        biased;
                        Some(tx) = snap_rx.recv() => {
                            tx.send(worterbuch::verif::snapshot(&wb)).ok();
                            held = Some(f);
                        }
                        p = g.permits.acquire() => {
                            if let Ok(p) = p { p.forget(); }
                            g.pending.fetch_sub(1, Ordering::SeqCst);
                            g.processed.lock().expect("lock").push(describe(&f));
                            worterbuch::verif::process_api_call(&mut wb, f).await;
                        }
                    }
                } else {
                    tokio::select! {
                        biased;
                        Some(tx) = snap_rx.recv() => { tx.send(worterbuch::verif::snapshot(&wb)).ok(); }
                        f = api_rx.recv() => match f {
                            Some(f) => {
                                if g.armed.load(Ordering::SeqCst) && !matches!(f, WbFunction::Disconnected(..)) {
                                    g.pending.fetch_add(1, Ordering::SeqCst);
                                    held = Some(f);
                                } else {
                                    worterbuch::verif::process_api_call(&mut wb, f).await;
                                }
                            }
                            None => break,
                        },
                    }
                }
            }
        });
        let subsys = subsystem().await;
        let sock = scratch_root().join(format!("c20-{}-{}.sock", std::process::id(), COUNTER.fetch_add(1, Ordering::Relaxed)));
        std::fs::remove_file(&sock).ok();
        let listener = UnixListener::bind(&sock).map_err(|e| format!("MACHINERY: bind: {e}"))?;
        let s2 = subsys.clone();
        let api2 = api.clone();
        tokio::spawn(async move {
            if let Ok((stream, _)) = listener.accept().await {
                worterbuch::verif::unix::serve(&s2, cid(0), api2, stream).await.ok();
            }
        });
        let mut ccfg = worterbuch_client::config::Config::default();
        ccfg.proto = "unix".into();
        ccfg.socket_path = Some(sock.clone());
        ccfg.channel_buffer_size = 16;
        let slot: Arc<Mutex<Option<Result<Client, String>>>> = Arc::new(Mutex::new(None));
        let s3 = slot.clone();
        tokio::spawn(async move {
            let r = worterbuch_client::try_connect(ccfg, "127.0.0.1:1".parse().expect("addr")).await;
            *s3.lock().expect("lock") = Some(r.map(|(c, _)| c).map_err(|e| e.to_string()));
        });
        if !spin_until(|| slot.lock().expect("lock").is_some(), 5000).await {
            return Err("MACHINERY: the client did not connect".into());
        }
        let client = slot.lock().expect("lock").take().expect("some").map_err(|e| format!("MACHINERY: connect failed: {e}"))?;
        spin(50).await;
        gate.armed.store(true, Ordering::SeqCst);
        Ok(Rig { gate, client, snap_tx, subsys, sock })
    }

    pub async fn server_step(&self) {
        self.gate.permits.add_permits(1);
        spin(80).await;
    }

    pub async fn snapshot(&self) -> Value {
        let (tx, mut rx) = oneshot::channel();
        if self.snap_tx.send(tx).await.is_err() {
            return Value::Null;
        }
        for _ in 0..200 {
            if let Ok(v) = rx.try_recv() {
                return v;
            }
            tokio::task::yield_now().await;
        }
        Value::Null
    }

    pub async fn shutdown(self) {
        self.gate.armed.store(false, Ordering::SeqCst);
        self.gate.permits.add_permits(1000);
        self.subsys.request_global_shutdown();
        spin(30).await;
        std::fs::remove_file(&self.sock).ok();
    }
}

fn err_str(e: &ConnectionError) -> String {
    match e {
        ConnectionError::ServerResponse(err) => format!("err:{}", err.error_code.clone() as u8),
        other => format!("failed:{other}"),
    }
}

#[derive(Clone, Debug)]
pub enum Call {
    Get(&'static str),
    Set(&'static str, i64),
    CGet(&'static str),
    CSet(&'static str, i64, u64),
    PGet(&'static str),
    Delete(&'static str),
    Ls(Option<&'static str>),
    Lock(&'static str),
    Release(&'static str),
    Publish(&'static str, i64),
}

impl Call {
    fn op(&self) -> Option<Op> {
        let s = |x: &str| x.to_owned();
        Some(match self {
            Call::Set(k, v) => Op::Set(0, s(k), json!(v)),
            Call::CSet(k, v, ver) => Op::CSet(0, s(k), json!(v), *ver),
            Call::Delete(k) => Op::Delete(0, s(k)),
            Call::Lock(k) => Op::Lock(0, s(k)),
            Call::Release(k) => Op::ReleaseLock(0, s(k)),
            Call::Publish(k, v) => Op::Publish(s(k), json!(v)),
            _ => return None,
        })
    }

    /// what the call must resolve with, given the reference state at the moment the server
    /// processes it
    fn expected(&self, model: &RefCore) -> (String, RefCore) {
        let doc = Flags::default();
        let unit = |m: &MObs| match &m.expect.ok {
            Some(_) => "ok".to_owned(),
            None => format!("err:{}", m.expect.errs.first().copied().unwrap_or(255)),
        };
        match self {
            Call::Get(k) => (
                match model.get(k) {
                    Ans::Ok(v) => format!("some:{v}"),
                    Ans::Err(5) => "none".into(),
                    Ans::Err(c) => format!("err:{c}"),
                },
                model.clone(),
            ),
            Call::CGet(k) => (
                match model.cget(k) {
                    Ans::Ok(v) => format!("some:{v}"),
                    Ans::Err(5) => "none".into(),
                    Ans::Err(c) => format!("err:{c}"),
                },
                model.clone(),
            ),
            Call::PGet(p) => (
                match model.pget(p, &doc) {
                    Ans::Ok(v) => format!("kvs:{v}"),
                    Ans::Err(c) => format!("err:{c}"),
                },
                model.clone(),
            ),
            Call::Ls(p) => (
                match model.ls(&p.map(|x| x.to_owned())) {
                    Ans::Ok(v) => format!("children:{v}"),
                    Ans::Err(c) => format!("err:{c}"),
                },
                model.clone(),
            ),
            Call::Delete(_) => {
                let (m, next) = model.step(&self.op().expect("op"), &doc);
                (
                    match &m.expect.ok {
                        Some(v) => format!("some:{v}"),
                        None if m.expect.errs.contains(&E_NO_SUCH_VALUE) => "none".into(),
                        None => format!("err:{}", m.expect.errs.first().copied().unwrap_or(255)),
                    },
                    next,
                )
            }
            _ => {
                let (m, next) = model.step(&self.op().expect("op"), &doc);
                (unit(&m), next)
            }
        }
    }

    async fn exec(&self, c: &Client) -> String {
        let s = |x: &str| x.to_owned();
        match self {
            Call::Get(k) => match c.get::<i64>(s(k)).await {
                Ok(Some(v)) => format!("some:{v}"),
                Ok(None) => "none".into(),
                Err(e) => err_str(&e),
            },
            Call::Set(k, v) => match c.set(s(k), *v).await {
                Ok(()) => "ok".into(),
                Err(e) => err_str(&e),
            },
            Call::CGet(k) => match c.cget::<i64>(s(k)).await {
                Ok(Some((v, ver))) => format!("some:[{v},{ver}]"),
                Ok(None) => "none".into(),
                Err(e) => err_str(&e),
            },
            Call::CSet(k, v, ver) => match c.cset(s(k), *v, *ver).await {
                Ok(()) => "ok".into(),
                Err(e) => err_str(&e),
            },
            Call::PGet(p) => match c.pget::<i64>(s(p)).await {
                Ok(kvs) => {
                    let mut v: Vec<(String, i64)> = kvs.into_iter().map(|kv| (kv.key, kv.value)).collect();
                    v.sort();
                    format!("kvs:{}", json!(v))
                }
                Err(e) => err_str(&e),
            },
            Call::Delete(k) => match c.delete::<i64>(s(k)).await {
                Ok(Some(v)) => format!("some:{v}"),
                Ok(None) => "none".into(),
                Err(e) => err_str(&e),
            },
            Call::Ls(p) => match c.ls(p.map(s)).await {
                Ok(mut ch) => {
                    ch.sort();
                    format!("children:{}", json!(ch))
                }
                Err(e) => err_str(&e),
            },
            Call::Lock(k) => match c.lock(s(k)).await {
                Ok(()) => "ok".into(),
                Err(e) => err_str(&e),
            },
            Call::Release(k) => match c.release_lock(s(k)).await {
                Ok(()) => "ok".into(),
                Err(e) => err_str(&e),
            },
            Call::Publish(k, v) => match c.publish(s(k), v).await {
                Ok(()) => "ok".into(),
                Err(e) => err_str(&e),
            },
        }
    }
}

struct TaskState {
    gate: Semaphore,
    waiting: AtomicBool,
    next: AtomicUsize,
    results: Mutex<Vec<Option<String>>>,
}

pub struct PairingScenario {
    pub scripts: Vec<Vec<Call>>,
}

impl Scenario for PairingScenario {
    fn num_ops(&self) -> usize {
        self.scripts.len() + 1
    }
    fn op_json(&self, op: u16) -> Value {
        if (op as usize) < self.scripts.len() {
            json!(format!("task {op} submits its next call"))
        } else {
            json!("server processes the next queued request")
        }
    }
    fn run(&self, history: &[u16]) -> Option<StepOut> {
        let rt = new_runtime();
        let out = rt.block_on(async {
            let rig = match Rig::new().await {
                Ok(r) => r,
                Err(e) => panic!("{e}"),
            };
            let tasks: Vec<Arc<TaskState>> = self
                .scripts
                .iter()
                .map(|s| {
                    Arc::new(TaskState {
                        gate: Semaphore::new(0),
                        waiting: AtomicBool::new(false),
                        next: AtomicUsize::new(0),
                        results: Mutex::new(vec![None; s.len()]),
                    })
                })
                .collect();
            for (i, script) in self.scripts.iter().enumerate() {
                let st = tasks[i].clone();
                let client = rig.client.clone();
                let script = script.clone();
                tokio::spawn(async move {
                    for (j, call) in script.iter().enumerate() {
                        st.waiting.store(true, Ordering::SeqCst);
                        if let Ok(p) = st.gate.acquire().await {
                            p.forget();
                        }
                        st.waiting.store(false, Ordering::SeqCst);
                        st.next.store(j + 1, Ordering::SeqCst);
                        let r = call.exec(&client).await;
                        st.results.lock().expect("lock")[j] = Some(r);
                    }
                    st.waiting.store(false, Ordering::SeqCst);
                });
            }
            spin(20).await;
            let (connect_obs, mut model) = RefCore::default().step(&Op::Connect(0), &Flags::default());
            let _ = connect_obs;
            let mut fifo: VecDeque<(usize, usize)> = VecDeque::new();
            let mut expected: BTreeMap<(usize, usize), String> = BTreeMap::new();
            let mut class = String::new();
            let server = self.scripts.len();
            for (n, o) in history.iter().enumerate() {
                let last = n + 1 == history.len();
                let o = *o as usize;
                if o == server {
                    if rig.gate.pending.load(Ordering::SeqCst) == 0 || fifo.is_empty() {
                        if last {
                            rig.shutdown().await;
                            return None;
                        }
                        panic!("MACHINERY: server step not enabled in prefix");
                    }
                    let (i, j) = fifo.pop_front().expect("fifo");
                    let (exp, next) = self.scripts[i][j].expected(&model);
                    model = next;
                    expected.insert((i, j), exp);
                    rig.server_step().await;
                    class = format!("server:{:?}", std::mem::discriminant(&self.scripts[i][j]));
                } else {
                    let st = &tasks[o];
                    let j = st.next.load(Ordering::SeqCst);
                    if !st.waiting.load(Ordering::SeqCst) || j >= self.scripts[o].len() {
                        if last {
                            rig.shutdown().await;
                            return None;
                        }
                        panic!("MACHINERY: task step not enabled in prefix");
                    }
                    fifo.push_back((o, j));
                    st.gate.add_permits(1);
                    spin(80).await;
                    class = format!("submit:{:?}", std::mem::discriminant(&self.scripts[o][j]));
                }
            }
            // oracle: every finished call resolved with the answer to that very call; a call whose
            // request the server has not processed yet must not have resolved
            let mut violation = None;
            let mut done = 0;
            for (i, st) in tasks.iter().enumerate() {
                let results = st.results.lock().expect("lock").clone();
                for (j, r) in results.iter().enumerate() {
                    match (r, expected.get(&(i, j))) {
                        (Some(r), Some(e)) => {
                            done += 1;
                            if r != e {
                                violation = Some(format!(
                                    "task {i} call {j} ({:?}) resolved with {r}, the server's answer to that call is {e}",
                                    self.scripts[i][j]
                                ));
                            }
                        }
                        (Some(r), None) => {
                            violation = Some(format!("task {i} call {j} ({:?}) resolved with {r} before the server processed its request", self.scripts[i][j]));
                        }
                        (None, Some(e)) => {
                            violation = Some(format!("task {i} call {j} ({:?}) did not resolve although the server answered it ({e})", self.scripts[i][j]));
                        }
                        (None, None) => {}
                    }
                }
            }
            // the server processed exactly the requests the calls stand for, in submission order
            let processed = rig.gate.processed.lock().expect("lock").clone();
            if processed.len() != expected.len() && violation.is_none() {
                violation = Some(format!("the server processed {} requests for {} answered calls: {processed:?}", processed.len(), expected.len()));
            }
            let snap = rig.snapshot().await;
            let fp = hash_str(&format!(
                "{}|{:?}|{:?}|{done}",
                snap["store"]["data"],
                fifo,
                tasks.iter().map(|t| (t.next.load(Ordering::SeqCst), t.waiting.load(Ordering::SeqCst))).collect::<Vec<_>>()
            ));
            rig.shutdown().await;
            Some(StepOut {
                fingerprint: fp,
                verdict: match violation {
                    Some(v) => Verdict::Violation(v),
                    None => Verdict::Ok,
                },
                class,
            })
        });
        drop(rt);
        out
    }
}

pub fn pairing_scenarios(tier: &str) -> Vec<(String, PairingScenario)> {
    let mut v = vec![
        (
            "two-tasks".to_owned(),
            PairingScenario {
                scripts: vec![
                    vec![Call::Set("x", 1), Call::Get("x"), Call::Delete("x")],
                    vec![Call::Get("x"), Call::Set("x", 2), Call::PGet("?")],
                ],
            },
        ),
        (
            "three-tasks".to_owned(),
            PairingScenario {
                scripts: vec![
                    vec![Call::CSet("c", 1, 0), Call::CGet("c")],
                    vec![Call::CSet("c", 2, 0), Call::Ls(None)],
                    vec![Call::Lock("l"), Call::Release("l")],
                ],
            },
        ),
    ];
    {
        let _ = tier;
        v.push((
            "three-tasks-mixed".to_owned(),
            PairingScenario {
                scripts: vec![
                    vec![Call::Set("x", 1), Call::CSet("x", 5, 0), Call::Get("x")],
                    vec![Call::Delete("x"), Call::Publish("x", 7), Call::CGet("x")],
                    vec![Call::Lock("x"), Call::PGet("?"), Call::Release("x")],
                ],
            },
        ));
    }
    v
}

// ------------------------------------------------------------------------------------ updates

/// k tasks run `update()` (cget; cset; retry on conflict) on one counter
pub struct UpdateScenario {
    pub tasks: usize,
}

impl Scenario for UpdateScenario {
    fn num_ops(&self) -> usize {
        self.tasks + 1
    }
    fn op_json(&self, op: u16) -> Value {
        if (op as usize) < self.tasks {
            json!(format!("task {op} starts update()"))
        } else {
            json!("server processes the next queued request")
        }
    }
    fn run(&self, history: &[u16]) -> Option<StepOut> {
        let rt = new_runtime();
        let out = rt.block_on(async {
            let rig = match Rig::new().await {
                Ok(r) => r,
                Err(e) => panic!("{e}"),
            };
            let started: Vec<Arc<AtomicBool>> = (0..self.tasks).map(|_| Arc::new(AtomicBool::new(false))).collect();
            let results: Arc<Mutex<Vec<Option<String>>>> = Arc::new(Mutex::new(vec![None; self.tasks]));
            let gates: Vec<Arc<Semaphore>> = (0..self.tasks).map(|_| Arc::new(Semaphore::new(0))).collect();
            for i in 0..self.tasks {
                let client = rig.client.clone();
                let g = gates[i].clone();
                let res = results.clone();
                tokio::spawn(async move {
                    if let Ok(p) = g.acquire().await {
                        p.forget();
                    }
                    let r = client.update("n".to_owned(), || 0i64, |v| *v += 1).await;
                    res.lock().expect("lock")[i] = Some(match r {
                        Ok(()) => "ok".into(),
                        Err(e) => err_str(&e),
                    });
                });
            }
            spin(20).await;
            let mut class = String::new();
            for (n, o) in history.iter().enumerate() {
                let last = n + 1 == history.len();
                let o = *o as usize;
                if o == self.tasks {
                    if rig.gate.pending.load(Ordering::SeqCst) == 0 {
                        if last {
                            rig.shutdown().await;
                            return None;
                        }
                        panic!("MACHINERY: server step not enabled in prefix");
                    }
                    rig.server_step().await;
                    class = "server".into();
                } else {
                    if started[o].swap(true, Ordering::SeqCst) {
                        if last {
                            rig.shutdown().await;
                            return None;
                        }
                        panic!("MACHINERY: task already started in prefix");
                    }
                    gates[o].add_permits(1);
                    spin(80).await;
                    class = "start".into();
                }
            }
            let res = results.lock().expect("lock").clone();
            let oks = res.iter().filter(|r| r.as_deref() == Some("ok")).count() as i64;
            let failed: Vec<&String> = res.iter().flatten().filter(|r| *r != "ok").collect();
            let snap = rig.snapshot().await;
            let stored = snap["store"]["data"]["t"]["n"]["v"]["c"].clone();
            let value = stored.get(0).and_then(|v| v.as_i64()).unwrap_or(0);
            let version = stored.get(1).and_then(|v| v.as_i64()).unwrap_or(0);
            let mut violation = None;
            if !failed.is_empty() {
                violation = Some(format!("update() failed: {failed:?}"));
            } else if value < oks {
                violation = Some(format!("{oks} update() calls returned Ok but the counter is {value}: an acknowledged update was lost"));
            } else if value != version {
                violation = Some(format!("counter {value} and version {version} disagree: an update was applied twice or skipped"));
            }
            let processed = rig.gate.processed.lock().expect("lock").len();
            let fp = hash_str(&format!("{stored}|{res:?}|{}|{processed}|{:?}", rig.gate.pending.load(Ordering::SeqCst), started.iter().map(|s| s.load(Ordering::SeqCst)).collect::<Vec<_>>()));
            rig.shutdown().await;
            Some(StepOut {
                fingerprint: fp,
                verdict: match violation {
                    Some(v) => Verdict::Violation(v),
                    None => Verdict::Ok,
                },
                class: format!("{class}:{oks}"),
            })
        });
        drop(rt);
        out
    }
}

// ------------------------------------------------------------------------------------ send buffer

#[derive(Clone, Debug)]
pub enum BStep {
    SetLater(&'static str),
    PublishLater(&'static str),
    Adv(u64),
    /// the (gated) server processes one pending request and answers it
    Server,
}

const DELAY_MS: u64 = 100;

pub struct BufferScenario {
    pub steps: Vec<BStep>,
    /// false: the server answers at once; true: the server only moves at `Server` steps, so values
    /// are handed in while an earlier set / publish of the same key is still unanswered
    pub gated: bool,
}

pub const SIG_PUBLISH_LATER: &str = "publish_later_never_sent";

impl Scenario for BufferScenario {
    fn num_ops(&self) -> usize {
        self.steps.len()
    }
    fn op_json(&self, op: u16) -> Value {
        json!(format!("{:?}", self.steps[op as usize]))
    }
    fn run(&self, history: &[u16]) -> Option<StepOut> {
        let rt = new_runtime();
        let out = rt.block_on(async {
            let rig = match Rig::new().await {
                Ok(r) => r,
                Err(e) => panic!("{e}"),
            };
            if !self.gated {
                // the server runs freely here: what it processes is what the client sent
                rig.gate.permits.add_permits(100_000);
            }
            let buffer = {
                let slot: Arc<Mutex<Option<worterbuch_client::buffer::SendBuffer>>> = Arc::new(Mutex::new(None));
                let s2 = slot.clone();
                let c = rig.client.clone();
                tokio::spawn(async move {
                    let b = c.send_buffer(Duration::from_millis(DELAY_MS)).await;
                    *s2.lock().expect("lock") = Some(b);
                });
                spin_until(|| slot.lock().expect("lock").is_some(), 500).await;
                let b = slot.lock().expect("lock").take();
                b.expect("MACHINERY: send buffer")
            };
            let mut n = 0i64;
            // per (kind, key): values handed in, in order
            let mut handed: BTreeMap<(String, String), Vec<i64>> = BTreeMap::new();
            let mut steps: Vec<BStep> = history.iter().map(|o| self.steps[*o as usize].clone()).collect();
            steps.push(BStep::Adv(3 * DELAY_MS));
            let last_ix = history.len().saturating_sub(1);
            for (ix, st) in steps.iter().enumerate() {
                match st {
                    BStep::Server => {
                        if rig.gate.pending.load(Ordering::SeqCst) == 0 {
                            if ix == last_ix {
                                rig.shutdown().await;
                                return None; // not enabled: nothing waits for the server
                            }
                            panic!("MACHINERY: server step not enabled in prefix");
                        }
                        rig.server_step().await;
                    }
                    BStep::SetLater(k) => {
                        n += 1;
                        handed.entry(("set".into(), k.to_string())).or_default().push(n);
                        let b = buffer.clone();
                        let (k, v) = (k.to_string(), n);
                        tokio::spawn(async move {
                            b.set_later(k, json!(v)).await.ok();
                        });
                        spin(40).await;
                    }
                    BStep::PublishLater(k) => {
                        n += 1;
                        handed.entry(("publish".into(), k.to_string())).or_default().push(n);
                        let b = buffer.clone();
                        let (k, v) = (k.to_string(), n);
                        tokio::spawn(async move {
                            b.publish_later(k, json!(v)).await.ok();
                        });
                        spin(40).await;
                    }
                    BStep::Adv(ms) => {
                        let mut left = *ms;
                        while left > 0 {
                            let d = left.min(25);
                            tokio::time::advance(Duration::from_millis(d)).await;
                            spin(60).await;
                            left -= d;
                        }
                    }
                }
            }
            if self.gated {
                // the server catches up; whatever that releases in the buffer gets its delay as well
                for _ in 0..4 {
                    rig.gate.permits.add_permits(1000);
                    spin(100).await;
                    let mut left = 2 * DELAY_MS;
                    while left > 0 {
                        tokio::time::advance(Duration::from_millis(25)).await;
                        spin(60).await;
                        left -= 25;
                    }
                }
            }
            spin(100).await;
            let processed = rig.gate.processed.lock().expect("lock").clone();
            // what was sent: per (kind, key) the values in order
            let mut sent: BTreeMap<(String, String), Vec<i64>> = BTreeMap::new();
            let mut other = vec![];
            for p in &processed {
                let mut it = p.splitn(2, ' ');
                let kind = it.next().unwrap_or("");
                let rest = it.next().unwrap_or("");
                if kind == "set" || kind == "publish" {
                    let mut kv = rest.splitn(2, '=');
                    let k = kv.next().unwrap_or("").to_owned();
                    let v: i64 = kv.next().unwrap_or("").parse().unwrap_or(-1);
                    sent.entry((kind.to_owned(), k)).or_default().push(v);
                } else {
                    other.push(p.clone());
                }
            }
            let mut violation: Option<String> = None;
            let mut known: Vec<(String, String)> = vec![];
            if !other.is_empty() {
                violation = Some(format!("the buffer made the client send something else: {other:?}"));
            }
            for (key, vals) in &handed {
                let empty = vec![];
                let s = sent.get(key).unwrap_or(&empty);
                // every sent value is one that was handed in for that key and kind, in order, each at
                // most once; the last handed-in value is eventually sent
                let mut pos = 0usize;
                let mut ok = true;
                for v in s {
                    match vals[pos..].iter().position(|x| x == v) {
                        Some(p) => pos += p + 1,
                        None => ok = false,
                    }
                }
                let publish_involved = handed.contains_key(&("publish".to_owned(), key.1.clone()));
                if !ok {
                    let what = format!("{} {}: handed in {vals:?}, sent {s:?}", key.0, key.1);
                    if publish_involved {
                        known.push((SIG_PUBLISH_LATER.to_owned(), what));
                    } else {
                        violation = Some(what);
                    }
                } else if s.last() != vals.last() {
                    let what = format!("{} {}: handed in {vals:?}, sent {s:?} - the latest buffered value was never sent", key.0, key.1);
                    if key.0 == "publish" || handed.contains_key(&("publish".to_owned(), key.1.clone())) {
                        known.push((SIG_PUBLISH_LATER.to_owned(), what));
                    } else {
                        violation = Some(what);
                    }
                }
            }
            for (key, s) in &sent {
                if !handed.contains_key(key) {
                    let what = format!("{} {} was sent ({s:?}) but never handed to the buffer as that kind", key.0, key.1);
                    if handed.contains_key(&("publish".to_owned(), key.1.clone())) {
                        known.push((SIG_PUBLISH_LATER.to_owned(), what));
                    } else {
                        violation = Some(what);
                    }
                }
            }
            rig.shutdown().await;
            Some(StepOut {
                fingerprint: hash_str(&format!("{history:?}")),
                verdict: match violation {
                    Some(v) => Verdict::Violation(v),
                    None if known.is_empty() => Verdict::Ok,
                    None => {
                        known.dedup_by(|a, b| a.0 == b.0);
                        Verdict::Known(known)
                    }
                },
                class: format!("sent:{}", processed.len()),
            })
        });
        drop(rt);
        out
    }
}

pub fn gated_buffer_scenario() -> BufferScenario {
    BufferScenario {
        steps: vec![
            BStep::SetLater("a"),
            BStep::SetLater("b"),
            BStep::PublishLater("a"),
            BStep::Adv(DELAY_MS),
            BStep::Server,
        ],
        gated: true,
    }
}

pub fn buffer_scenario() -> BufferScenario {
    BufferScenario {
        gated: false,
        steps: vec![
            BStep::SetLater("a"),
            BStep::SetLater("b"),
            BStep::PublishLater("a"),
            BStep::PublishLater("c"),
            BStep::Adv(DELAY_MS / 2),
            BStep::Adv(DELAY_MS),
        ],
    }
}

// ------------------------------------------------------------------------------------ unsubscribe

pub const SIG_UNSUB_LS_ASYNC: &str = "unsubscribe_ls_async_sends_unsubscribe";

/// All four unsubscribe variants: afterwards the server must not hold the subscription and a
/// matching change must not reach the client.
pub fn run_unsubscribe(rep: &mut mc::Report) -> (u64, Vec<Value>) {
    let mut n = 0;
    let mut samples = vec![];
    for (ls, fire_and_forget) in [(false, false), (false, true), (true, false), (true, true)] {
        for (pattern, sub_async) in [(false, false), (true, false), (false, true), (true, true)] {
            if ls && pattern {
                continue;
            }
            n += 1;
            let rt = new_runtime();
            let res: Result<(), String> = rt.block_on(async {
                let rig = Rig::new().await?;
                rig.gate.permits.add_permits(100_000);
                let client = rig.client.clone();
                let done: Arc<Mutex<Option<Result<u64, String>>>> = Arc::new(Mutex::new(None));
                let d2 = done.clone();
                let got: Arc<AtomicUsize> = Arc::new(AtomicUsize::new(0));
                let g2 = got.clone();
                tokio::spawn(async move {
                    let r: Result<u64, String> = async {
                        let tid = if sub_async {
                            // the subscription itself was made fire-and-forget: the client holds no
                            // local callback for it
                            if ls {
                                client.subscribe_ls_async(Some("k".into())).await.map_err(|e| e.to_string())?
                            } else if pattern {
                                client.psubscribe_async("k/#".into(), false, true, None).await.map_err(|e| e.to_string())?
                            } else {
                                client.subscribe_async("k/x".into(), false, true).await.map_err(|e| e.to_string())?
                            }
                        } else if ls {
                            let (mut rx, tid) = client.subscribe_ls(Some("k".into())).await.map_err(|e| e.to_string())?;
                            tokio::spawn(async move { while rx.recv().await.is_some() { g2.fetch_add(1, Ordering::SeqCst); } });
                            tid
                        } else if pattern {
                            let (mut rx, tid) = client.psubscribe_generic("k/#".into(), false, true, None).await.map_err(|e| e.to_string())?;
                            tokio::spawn(async move { while rx.recv().await.is_some() { g2.fetch_add(1, Ordering::SeqCst); } });
                            tid
                        } else {
                            let (mut rx, tid) = client.subscribe_generic("k/x".into(), false, true).await.map_err(|e| e.to_string())?;
                            tokio::spawn(async move { while rx.recv().await.is_some() { g2.fetch_add(1, Ordering::SeqCst); } });
                            tid
                        };
                        client.set("k/x".into(), 1).await.map_err(|e| e.to_string())?;
                        match (ls, fire_and_forget) {
                            (false, false) => client.unsubscribe(tid).await.map_err(|e| e.to_string())?,
                            (false, true) => { client.unsubscribe_async(tid).await.map_err(|e| e.to_string())?; }
                            (true, false) => client.unsubscribe_ls(tid).await.map_err(|e| e.to_string())?,
                            (true, true) => { client.unsubscribe_ls_async(tid).await.map_err(|e| e.to_string())?; }
                        }
                        Ok(tid)
                    }
                    .await;
                    *d2.lock().expect("lock") = Some(r);
                });
                if !spin_until(|| done.lock().expect("lock").is_some(), 4000).await {
                    return Err("the subscribe / unsubscribe calls did not return".into());
                }
                let tid = done.lock().expect("lock").take().expect("some")?;
                spin(200).await;
                let before = got.load(Ordering::SeqCst);
                let snap = rig.snapshot().await;
                let table = if ls { &snap["ls_subscriptions"] } else { &snap["subscriptions"] };
                let still = table.as_object().map(|o| o.keys().any(|k| k.ends_with(&format!("#{tid}")))).unwrap_or(false);
                // a matching change after the unsubscribe
                let c2 = rig.client.clone();
                let fin: Arc<AtomicBool> = Arc::new(AtomicBool::new(false));
                let f2 = fin.clone();
                tokio::spawn(async move {
                    c2.set("k/x".into(), 2).await.ok();
                    c2.set("k/y".into(), 3).await.ok();
                    c2.delete::<i64>("k/x".into()).await.ok();
                    f2.store(true, Ordering::SeqCst);
                });
                spin_until(|| fin.load(Ordering::SeqCst), 4000).await;
                spin(200).await;
                let after = got.load(Ordering::SeqCst);
                rig.shutdown().await;
                if still {
                    return Err(format!("the server still holds subscription {tid} after the unsubscribe"));
                }
                if after != before {
                    return Err(format!("{} events reached the client after the unsubscribe", after - before));
                }
                Ok(())
            });
            drop(rt);
            let case = json!({"ls": ls, "pattern": pattern, "fire_and_forget": fire_and_forget, "subscribed_fire_and_forget": sub_async});
            samples.push(case.clone());
            if let Err(e) = res {
                if e.starts_with("MACHINERY") {
                    rep.machinery(e);
                } else if ls && fire_and_forget {
                    rep.known_or_violation(SIG_UNSUB_LS_ASYNC, format!("fire-and-forget ls unsubscribe: {e}"), case);
                } else {
                    rep.violation(format!("unsubscribe variant {case}: {e}"), case);
                }
            }
        }
    }
    (n, samples)
}

// ------------------------------------------------------------------------------------ typed results

/// Every typed accessor against every value shape: what a call returns must equal what the server
/// holds (the value that was set, as the untyped call and the server's own store report it).
pub fn run_typed(rep: &mut mc::Report) -> (u64, Vec<Value>) {
    let values: Vec<Value> = vec![
        json!(1),
        json!(-7),
        json!(1.5),
        json!("text"),
        json!(""),
        json!(true),
        Value::Null,
        json!([1, null, "x"]),
        json!([]),
        json!({"a": null, "b": {"c": 1}}),
        json!({}),
    ];
    let mut n = 0u64;
    let mut samples = vec![];
    for (vi, v) in values.iter().enumerate() {
        let rt = new_runtime();
        let v2 = v.clone();
        let res: Result<Vec<String>, String> = rt.block_on(async {
            let rig = Rig::new().await?;
            rig.gate.permits.add_permits(100_000);
            let c = rig.client.clone();
            let done: Arc<Mutex<Option<Result<Vec<String>, String>>>> = Arc::new(Mutex::new(None));
            let d2 = done.clone();
            let v = v2.clone();
            tokio::spawn(async move {
                let r: Result<Vec<String>, String> = async {
                    let e = |x: ConnectionError| x.to_string();
                    let mut bad = vec![];
                    let mut check = |what: &str, got: String, want: String| {
                        if got != want {
                            bad.push(format!("{what}: returned {got}, the server holds {want}"));
                        }
                    };
                    c.set("t/k".into(), v.clone()).await.map_err(e)?;
                    c.cset("t/c".into(), v.clone(), 0).await.map_err(e)?;
                    let held = format!("{:?}", Some(v.clone()));
                    check("get_generic", format!("{:?}", c.get_generic("t/k".into()).await.map_err(e)?), held.clone());
                    check("get::<Value>", format!("{:?}", c.get::<Value>("t/k".into()).await.map_err(e)?), held.clone());
                    check("get::<Option<Value>>", format!("{:?}", c.get::<Option<Value>>("t/k".into()).await.map_err(e)?), format!("{:?}", Some(if v.is_null() { None } else { Some(v.clone()) })));
                    let held_c = format!("{:?}", Some((v.clone(), 1u64)));
                    check("cget_generic", format!("{:?}", c.cget_generic("t/c".into()).await.map_err(e)?), held_c.clone());
                    check("cget::<Value>", format!("{:?}", c.cget::<Value>("t/c".into()).await.map_err(e)?), held_c);
                    let mut kvs: Vec<(String, Value)> = c.pget::<Value>("t/?".into()).await.map_err(e)?.into_iter().map(|kv| (kv.key, kv.value)).collect();
                    kvs.sort_by(|a, b| a.0.cmp(&b.0));
                    check("pget::<Value>", format!("{kvs:?}"), format!("{:?}", vec![("t/c".to_owned(), v.clone()), ("t/k".to_owned(), v.clone())]));
                    let mut kvs: Vec<(String, Value)> = c.pget_generic("t/?".into()).await.map_err(e)?.into_iter().map(|kv| (kv.key, kv.value)).collect();
                    kvs.sort_by(|a, b| a.0.cmp(&b.0));
                    check("pget_generic", format!("{kvs:?}"), format!("{:?}", vec![("t/c".to_owned(), v.clone()), ("t/k".to_owned(), v.clone())]));
                    if let Some(i) = v.as_i64() {
                        check("get::<i64>", format!("{:?}", c.get::<i64>("t/k".into()).await.map_err(e)?), format!("{:?}", Some(i)));
                    }
                    if let Some(s) = v.as_str() {
                        check("get::<String>", format!("{:?}", c.get::<String>("t/k".into()).await.map_err(e)?), format!("{:?}", Some(s.to_owned())));
                    }
                    check("delete::<Value>", format!("{:?}", c.delete::<Value>("t/k".into()).await.map_err(e)?), held.clone());
                    check("get::<Value> after delete", format!("{:?}", c.get::<Value>("t/k".into()).await.map_err(e)?), "None".into());
                    check("delete::<Value> of an absent key", format!("{:?}", c.delete::<Value>("t/k".into()).await.map_err(e)?), "None".into());
                    check("delete_generic", format!("{:?}", c.delete_generic("t/c".into()).await.map_err(e)?), held.clone());
                    c.set("t/p".into(), v.clone()).await.map_err(e)?;
                    let kvs: Vec<(String, Value)> = c.pdelete::<Value>("t/?".into(), false).await.map_err(e)?.into_iter().map(|kv| (kv.key, kv.value)).collect();
                    check("pdelete::<Value>", format!("{kvs:?}"), format!("{:?}", vec![("t/p".to_owned(), v.clone())]));
                    Ok(bad)
                }
                .await;
                *d2.lock().expect("lock") = Some(r);
            });
            if !spin_until(|| done.lock().expect("lock").is_some(), 20_000).await {
                return Err("the typed calls did not return".into());
            }
            let r = done.lock().expect("lock").take().expect("some");
            rig.shutdown().await;
            r
        });
        drop(rt);
        n += 17;
        let case = json!({"value": v, "index": vi});
        samples.push(case.clone());
        match res {
            Err(e) if e.starts_with("MACHINERY") => rep.machinery(e),
            Err(e) => rep.violation(format!("typed calls with value {v}: {e}"), case),
            Ok(bad) => {
                for b in bad {
                    rep.violation(format!("value {v}: {b}"), case.clone());
                }
            }
        }
    }
    (n, samples)
}

// ------------------------------------------------------------------------------------ transaction ids

/// Calls, subscriptions and unsubscribes of one client in sequence: a subscription stays open across
/// later calls, so every later call has to get an id of its own - each call resolves with its own
/// answer and each subscription receives exactly the changes of its key.
#[derive(Clone, Debug)]
pub enum IStep {
    Sub(&'static str),
    UnsubOldest,
    Get(&'static str),
    Set(&'static str),
    Lock(&'static str),
}

pub struct IdScenario {
    pub steps: Vec<IStep>,
}

async fn finish<T: Send + 'static>(fut: impl std::future::Future<Output = T> + Send + 'static) -> Option<T> {
    let slot: Arc<Mutex<Option<T>>> = Arc::new(Mutex::new(None));
    let s2 = slot.clone();
    tokio::spawn(async move {
        let r = fut.await;
        *s2.lock().expect("lock") = Some(r);
    });
    spin_until(|| slot.lock().expect("lock").is_some(), 4000).await;
    let r = slot.lock().expect("lock").take();
    r
}

impl Scenario for IdScenario {
    fn num_ops(&self) -> usize {
        self.steps.len()
    }
    fn op_json(&self, op: u16) -> Value {
        json!(format!("{:?}", self.steps[op as usize]))
    }
    fn run(&self, history: &[u16]) -> Option<StepOut> {
        let rt = new_runtime();
        let out = rt.block_on(async {
            let rig = match Rig::new().await {
                Ok(r) => r,
                Err(e) => panic!("{e}"),
            };
            rig.gate.permits.add_permits(100_000);
            let mut values: BTreeMap<String, i64> = BTreeMap::new();
            let mut counter = 0i64;
            // (tid, key, received, expected, live)
            struct Sub {
                tid: u64,
                key: String,
                got: Arc<Mutex<Vec<Option<Value>>>>,
                want: Vec<Option<Value>>,
                live: bool,
            }
            let mut subs: Vec<Sub> = vec![];
            let mut locked: std::collections::BTreeSet<String> = Default::default();
            let mut violation: Option<String> = None;
            let mut class = String::new();
            for (i, o) in history.iter().enumerate() {
                let last = i + 1 == history.len();
                let c = rig.client.clone();
                match &self.steps[*o as usize] {
                    IStep::Sub(k) => {
                        let key = k.to_string();
                        let r = finish(async move { c.subscribe_generic(key, false, false).await.map_err(|e| e.to_string()) }).await;
                        match r {
                            Some(Ok((mut rx, tid))) => {
                                let got: Arc<Mutex<Vec<Option<Value>>>> = Arc::new(Mutex::new(vec![]));
                                let g2 = got.clone();
                                tokio::spawn(async move {
                                    while let Some(v) = rx.recv().await {
                                        g2.lock().expect("lock").push(v);
                                    }
                                });
                                let mut want = vec![];
                                if let Some(v) = values.get(*k) {
                                    want.push(Some(json!(v)));
                                }
                                subs.push(Sub { tid, key: k.to_string(), got, want, live: true });
                                class = "sub".into();
                            }
                            other => violation = Some(format!("subscribe({k}) did not succeed: {:?}", other.map(|r| r.map(|x| x.1)))),
                        }
                    }
                    IStep::UnsubOldest => {
                        let Some(s) = subs.iter_mut().find(|s| s.live) else {
                            rig.shutdown().await;
                            if last {
                                return None;
                            }
                            panic!("MACHINERY: nothing to unsubscribe in prefix");
                        };
                        s.live = false;
                        let tid = s.tid;
                        match finish(async move { c.unsubscribe(tid).await.map_err(|e| e.to_string()) }).await {
                            Some(Ok(())) => class = "unsub".into(),
                            other => violation = Some(format!("unsubscribe({tid}) did not succeed: {other:?}")),
                        }
                    }
                    IStep::Get(k) => {
                        let key = k.to_string();
                        let r = finish(async move { c.get::<i64>(key).await.map_err(|e| e.to_string()) }).await;
                        let want = values.get(*k).copied();
                        match r {
                            Some(Ok(v)) if v == want => class = "get".into(),
                            other => violation = Some(format!("get({k}) resolved with {other:?}, the server holds {want:?}")),
                        }
                    }
                    IStep::Set(k) => {
                        counter += 1;
                        let (key, v) = (k.to_string(), counter);
                        match finish(async move { c.set(key, v).await.map_err(|e| e.to_string()) }).await {
                            Some(Ok(())) => {
                                values.insert(k.to_string(), counter);
                                for s in subs.iter_mut().filter(|s| s.live && s.key == *k) {
                                    s.want.push(Some(json!(counter)));
                                }
                                class = "set".into();
                            }
                            other => violation = Some(format!("set({k}) did not succeed: {other:?}")),
                        }
                    }
                    IStep::Lock(k) => {
                        let key = k.to_string();
                        let r = finish(async move { c.lock(key).await.map_err(|e| e.to_string()) }).await;
                        let fresh = locked.insert(k.to_string());
                        match r {
                            Some(Ok(())) => class = "lock".into(),
                            // (locking a key one holds already is fine as well)
                            other if !fresh => class = format!("lock-again:{}", other.is_some()),
                            other => violation = Some(format!("lock({k}) did not succeed: {other:?}")),
                        }
                    }
                }
                spin(60).await;
                if violation.is_none() {
                    for s in &subs {
                        let got = s.got.lock().expect("lock").clone();
                        if got != s.want {
                            violation = Some(format!(
                                "subscription {} on {:?} received {got:?}, the changes of its key were {:?} (after step {:?})",
                                s.tid, s.key, s.want, self.steps[*o as usize]
                            ));
                        }
                    }
                }
                if violation.is_some() {
                    if !last {
                        panic!("MACHINERY: prefix violated on replay: {violation:?}");
                    }
                    break;
                }
            }
            rig.shutdown().await;
            Some(StepOut {
                fingerprint: hash_str(&format!("{history:?}")),
                verdict: match violation {
                    Some(v) => Verdict::Violation(v),
                    None => Verdict::Ok,
                },
                class,
            })
        });
        drop(rt);
        out
    }
}

pub fn id_scenario() -> IdScenario {
    IdScenario { steps: vec![IStep::Sub("x"), IStep::Sub("y"), IStep::UnsubOldest, IStep::Get("y"), IStep::Set("x"), IStep::Set("y"), IStep::Lock("l")] }
}
