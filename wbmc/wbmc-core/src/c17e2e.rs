//! C17 end to end: the whole server (`spawn_worterbuch`: core loop, unix socket listener, one
//! subsystem per connection) on a real-time runtime, a raw adversary connection and a raw witness
//! connection over the real unix socket. Whatever the adversary's session ends with, the listener
//! and the core have to outlive it: the witness keeps getting answers and a new client is accepted.

use crate::{persist::scratch_root, real::*};
use mc::{Scenario, StepOut, Verdict, util::hash_str};
use serde_json::{Value, json};
use std::{
    sync::atomic::{AtomicU64, Ordering},
    time::Duration,
};
use tokio::{
    io::{AsyncBufReadExt, AsyncWriteExt, BufReader},
    net::UnixStream,
    sync::mpsc,
};
use tosub::SubsystemHandle;
use worterbuch::UnixEndpoint;
use worterbuch_common::WbApi;

static COUNTER: AtomicU64 = AtomicU64::new(0);

#[derive(Clone, Debug)]
pub enum AStep {
    Line(&'static str),
    /// two requests, then the connection is dropped without reading the answers
    PipelineAndVanish,
}

pub struct LiveE2e {
    pub steps: Vec<AStep>,
}

async fn root() -> SubsystemHandle {
    let (tx, mut rx) = mpsc::channel::<SubsystemHandle>(1);
    tokio::spawn(async move {
        tosub::build_root("wbmc-c17")
            .catch_no_signals()
            .no_shutdown_on_stdin_close()
            .with_timeout(Duration::from_millis(200))
            .start(move |s: SubsystemHandle| async move {
                tx.send(s.clone()).await.ok();
                s.shutdown_requested().await;
                Ok::<(), miette::Error>(())
            })
            .await
            .ok();
    });
    rx.recv().await.expect("MACHINERY: subsystem")
}

struct Conn {
    rd: tokio::io::Lines<BufReader<tokio::net::unix::OwnedReadHalf>>,
    wr: tokio::net::unix::OwnedWriteHalf,
}

async fn connect(path: &std::path::Path) -> Result<Conn, String> {
    let mut last = String::new();
    for _ in 0..400 {
        match UnixStream::connect(path).await {
            Ok(s) => {
                let (r, w) = s.into_split();
                let mut c = Conn { rd: BufReader::new(r).lines(), wr: w };
                // the Welcome message
                return match tokio::time::timeout(Duration::from_secs(5), c.rd.next_line()).await {
                    Ok(Ok(Some(l))) if l.contains("welcome") => Ok(c),
                    other => Err(format!("no welcome message: {other:?}")),
                };
            }
            Err(e) => last = e.to_string(),
        }
        tokio::time::sleep(Duration::from_millis(5)).await;
    }
    Err(format!("cannot connect: {last}"))
}

/// one witness round trip: set, then get, both answered
async fn witness_round(c: &mut Conn, n: u64) -> Result<(), String> {
    let set = json!({"set": {"transactionId": 2 * n, "key": "w/x", "value": n}}).to_string();
    let get = json!({"get": {"transactionId": 2 * n + 1, "key": "w/x"}}).to_string();
    for (line, want) in [(set, "ack"), (get, "state")] {
        c.wr.write_all(format!("{line}\n").as_bytes()).await.map_err(|e| format!("witness cannot write: {e}"))?;
        match tokio::time::timeout(Duration::from_secs(5), c.rd.next_line()).await {
            Ok(Ok(Some(l))) if l.contains(want) => {}
            Ok(Ok(None)) => return Err("the witness connection was closed by the server".into()),
            other => return Err(format!("witness request {line} was answered with {other:?}")),
        }
    }
    Ok(())
}

impl Scenario for LiveE2e {
    fn num_ops(&self) -> usize {
        self.steps.len()
    }
    fn op_json(&self, op: u16) -> Value {
        json!(format!("{:?}", self.steps[op as usize]))
    }
    fn run(&self, history: &[u16]) -> Option<StepOut> {
        let sock = scratch_root().join(format!("c17-{}-{}.sock", std::process::id(), COUNTER.fetch_add(1, Ordering::Relaxed)));
        std::fs::remove_file(&sock).ok();
        let rt = tokio::runtime::Builder::new_multi_thread().worker_threads(2).enable_all().build().expect("runtime");
        let res: Result<(), String> = rt.block_on(async {
            let subsys = root().await;
            let mut cfg = base_config();
            cfg.tcp_disabled = true;
            cfg.unix_disabled = false;
            cfg.unix_endpoint = Some(UnixEndpoint { path: sock.clone() });
            let api = worterbuch::spawn_worterbuch(&subsys, cfg).await.map_err(|e| format!("MACHINERY: server start: {e}"))?;
            api.entries().await.map_err(|e| format!("MACHINERY: the server does not answer: {e}"))?;
            let mut witness = connect(&sock).await.map_err(|e| format!("MACHINERY: witness: {e}"))?;
            let mut adversary = Some(connect(&sock).await.map_err(|e| format!("MACHINERY: adversary: {e}"))?);
            let mut n = 0u64;
            for o in history {
                n += 1;
                match &self.steps[*o as usize] {
                    AStep::Line(l) => {
                        if adversary.is_none() {
                            adversary = Some(connect(&sock).await.map_err(|e| format!("after the adversary's session ended no new client is accepted: {e}"))?);
                        }
                        let a = adversary.as_mut().expect("some");
                        if a.wr.write_all(format!("{l}\n").as_bytes()).await.is_err() {
                            adversary = None;
                        } else {
                            // give the server the chance to answer or to end the session
                            match tokio::time::timeout(Duration::from_millis(300), a.rd.next_line()).await {
                                Ok(Ok(None)) | Ok(Err(_)) => adversary = None,
                                _ => {}
                            }
                        }
                    }
                    AStep::PipelineAndVanish => {
                        if let Some(mut a) = adversary.take() {
                            a.wr.write_all(b"{\"set\":{\"transactionId\":1,\"key\":\"v/a\",\"value\":1}}\n{\"get\":{\"transactionId\":2,\"key\":\"v/a\"}}\n{\"pGet\":{\"transactionId\":3,\"requestPattern\":\"#\"}}\n").await.ok();
                            drop(a);
                        }
                    }
                }
                witness_round(&mut witness, n).await?;
            }
            // the server still serves: API, witness, a new client
            api.entries().await.map_err(|e| format!("the core no longer answers: {e}"))?;
            witness_round(&mut witness, n + 1).await?;
            let mut newcomer = connect(&sock).await.map_err(|e| format!("no new client is accepted any more: {e}"))?;
            witness_round(&mut newcomer, n + 2).await.map_err(|e| format!("a new client is not served: {e}"))?;
            subsys.request_global_shutdown();
            tokio::time::sleep(Duration::from_millis(20)).await;
            Ok(())
        });
        rt.shutdown_background();
        std::fs::remove_file(&sock).ok();
        let verdict = match res {
            Err(e) if e.starts_with("MACHINERY") => panic!("{e}"),
            Err(e) => Verdict::Violation(e),
            Ok(()) => Verdict::Ok,
        };
        Some(StepOut { fingerprint: hash_str(&format!("{history:?}")), verdict, class: format!("len:{}", history.len()) })
    }
}

pub fn scenario() -> LiveE2e {
    LiveE2e {
        steps: vec![
            AStep::Line(r#"{"protocolSwitchRequest":{"version":7}}"#),
            AStep::Line(r#"{"protocolSwitchRequest":{"version":1}}"#),
            AStep::Line(r#"{"authorizationRequest":{"authToken":"x.y.z"}}"#),
            AStep::Line(r#"{"set":{"transactionId":9,"key":"v/a","value":1}}"#),
            AStep::Line(r#"{"cSet":{"transactionId":9,"key":"v/a","value":1,"version":5}}"#),
            AStep::Line(r#"{"frobnicate":{}}"#),
            AStep::Line("{not json"),
            AStep::Line(""),
            AStep::PipelineAndVanish,
        ],
    }
}
