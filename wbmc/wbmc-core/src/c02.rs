//! C02 — compare-and-swap never loses an update.
//!
//! Part 1: k clients run `cget; cset(version from that cget)` cycles on shared keys, a plain writer
//! and a deleter interfere, a rogue client sends stale / future / boundary versions; every
//! interleaving of their requests is enumerated at request granularity on the real core.

use crate::{ops::*, real::*};
use mc::{Scenario, StepOut, Verdict, util::hash_str};
use serde_json::{Value, json};
use std::collections::BTreeMap;

#[derive(Clone, Debug)]
pub enum Instr {
    CGet(&'static str),
    /// cset with the version (and a value derived from the value) of this actor's last cget
    CSetFromLast(&'static str),
    /// cset with the version of the last cget that writes back the very value that was read
    CSetSameValue(&'static str),
    /// cset with (current version + delta) computed from the actor's last cget
    CSetOffset(&'static str, i64),
    CSetAbs(&'static str, u64),
    Set(&'static str),
    Delete(&'static str),
    /// pattern delete that removes exactly this key (`<key>` itself is the pattern: the other road to
    /// "absent, version 0")
    PDelete(&'static str),
}

pub struct CasScenario {
    pub programs: Vec<Vec<Instr>>,
    /// optional import executed first (boundary versions)
    pub setup_import: Option<String>,
    /// an actor that writes with the server's own client id (statistics task, embedded client):
    /// through the request path it is a writer like any other
    pub server_actor: Option<usize>,
}

#[derive(Clone, Debug, Default, PartialEq)]
struct KeyModel {
    /// None = absent; Some((value, None)) = plain; Some((value, Some(v))) = CAS at version v
    cur: Option<(Value, Option<u64>)>,
    epoch: u64,
}

impl KeyModel {
    fn version(&self) -> u64 {
        match &self.cur {
            Some((_, Some(v))) => *v,
            _ => 0,
        }
    }
}

#[derive(Clone, Debug, Default)]
struct Local {
    pc: usize,
    last: BTreeMap<&'static str, (Option<Value>, u64)>,
    /// (epoch, version) last observed per key
    seen: BTreeMap<&'static str, (u64, u64)>,
    acked: u64,
}

impl Scenario for CasScenario {
    fn num_ops(&self) -> usize {
        self.programs.len()
    }

    fn op_json(&self, op: u16) -> Value {
        json!(format!("step actor {op}"))
    }

    fn run(&self, history: &[u16]) -> Option<StepOut> {
        block_on(async {
            let mut core = RealCore::new();
            let mut model: BTreeMap<&'static str, KeyModel> = BTreeMap::new();
            if let Some(doc) = &self.setup_import {
                core.wb.import(doc).await.expect("MACHINERY: setup import");
                let parsed: Value = serde_json::from_str(doc).expect("json");
                let mut entries = vec![];
                crate::model::collect_import(&parsed["data"], &mut vec![], &mut entries);
                for (p, e) in entries {
                    let k: &'static str = Box::leak(p.join("/").into_boxed_str());
                    let cur = match e {
                        crate::model::Entry::Plain(v) => (v, None),
                        crate::model::Entry::Cas(v, n) => (v, Some(n)),
                    };
                    model.insert(k, KeyModel { cur: Some(cur), epoch: 0 });
                }
            }
            let mut locals: Vec<Local> = vec![Local::default(); self.programs.len()];
            let mut class = String::new();
            let mut violation: Option<String> = None;
            for (i, a) in history.iter().enumerate() {
                let last = i + 1 == history.len();
                let a = *a as usize;
                let pc = locals[a].pc;
                let Some(instr) = self.programs[a].get(pc) else {
                    if last {
                        return None;
                    }
                    panic!("MACHINERY: finished actor scheduled in prefix");
                };
                locals[a].pc += 1;
                let c = if self.server_actor == Some(a) { INTERNAL } else { a as C };
                match instr {
                    Instr::CGet(k) => {
                        let got = core.wb.cget(&k.to_string());
                        let km = model.entry(k).or_default().clone();
                        match (&got, &km.cur) {
                            (Err(_), None) => {
                                locals[a].last.insert(k, (None, 0));
                                class = "cget:absent".into();
                            }
                            (Ok((v, ver)), Some((mv, mver))) if v == mv && *ver == mver.unwrap_or(0) => {
                                locals[a].last.insert(k, (Some(v.clone()), *ver));
                                class = format!("cget:{}", if mver.is_some() { "cas" } else { "plain" });
                                if let Some((ep, seen)) = locals[a].seen.get(k) {
                                    if *ep == km.epoch && *ver < *seen {
                                        violation = Some(format!("actor {a} observed version {ver} of {k} after {seen} while the key existed"));
                                    }
                                }
                                locals[a].seen.insert(k, (km.epoch, *ver));
                            }
                            _ => {
                                violation = Some(format!("cget({k}) by actor {a}: impl={got:?} reference={:?}", km.cur));
                            }
                        }
                    }
                    Instr::CSetFromLast(k) | Instr::CSetSameValue(k) | Instr::CSetOffset(k, _) | Instr::CSetAbs(k, _) => {
                        let (lastv, lastver) = locals[a].last.get(k).cloned().unwrap_or((None, 0));
                        let carried = match instr {
                            Instr::CSetFromLast(_) | Instr::CSetSameValue(_) => lastver,
                            Instr::CSetOffset(_, d) => {
                                if *d < 0 { lastver.saturating_sub(d.unsigned_abs()) } else { lastver.saturating_add(*d as u64) }
                            }
                            Instr::CSetAbs(_, v) => *v,
                            _ => unreachable!(),
                        };
                        let newv = if let (Instr::CSetSameValue(_), Some(v)) = (instr, &lastv) {
                            v.clone()
                        } else {
                            json!(lastv.and_then(|v| v.as_i64()).unwrap_or(0) + 1 + 1000 * (a as i64 + 1))
                        };
                        // (through the request path every transport uses)
                        let res = {
                            let (tx, rx) = tokio::sync::oneshot::channel();
                            worterbuch::verif::process_api_call(&mut core.wb, worterbuch::verif::WbFunction::CSet(k.to_string(), newv.clone(), carried, cid(c), tx)).await;
                            rx.await.expect("MACHINERY: cset answer")
                        };
                        let km = model.entry(k).or_default();
                        let cur = km.version();
                        // "succeeds iff the carried version equals the current one (0 for absent or
                        // plain) and then raises it by exactly one"; at u64::MAX it cannot be raised
                        let should = carried == cur && cur != u64::MAX;
                        match (&res, should) {
                            (Ok(()), true) => {
                                km.cur = Some((newv, Some(cur + 1)));
                                locals[a].acked += 1;
                                class = "cset:won".into();
                            }
                            (Err(e), false) if err_code(e) == crate::model::E_CAS_MISMATCH => {
                                class = if carried < cur { "cset:stale".into() } else { "cset:future".into() };
                            }
                            _ => {
                                violation = Some(format!(
                                    "cset({k}, version {carried}) by actor {a} while the current version is {cur}: impl={:?}, must {}",
                                    res.as_ref().map_err(|e| err_code(e)),
                                    if should { "succeed" } else { "fail with a version mismatch" }
                                ));
                            }
                        }
                    }
                    Instr::Set(k) => {
                        let v = json!(-(a as i64) - 1);
                        let res = {
                            let (tx, rx) = tokio::sync::oneshot::channel();
                            worterbuch::verif::process_api_call(&mut core.wb, worterbuch::verif::WbFunction::Set(k.to_string(), v.clone(), cid(c), tx, tracing::Span::none())).await;
                            rx.await.expect("MACHINERY: set answer")
                        };
                        let km = model.entry(k).or_default();
                        let is_cas = matches!(km.cur, Some((_, Some(_))));
                        match (&res, is_cas) {
                            (Ok(()), false) => {
                                km.cur = Some((v, None));
                                class = "set:ok".into();
                            }
                            (Err(e), true) if err_code(e) == crate::model::E_CAS => {
                                class = "set:refused".into();
                            }
                            _ => {
                                violation = Some(format!("plain set({k}) on {:?}: impl={:?}", km.cur, res.as_ref().map_err(|e| err_code(e))));
                            }
                        }
                    }
                    Instr::PDelete(k) => {
                        let res = core.wb.pdelete(k.to_string(), cid(c)).await;
                        let km = model.entry(k).or_default();
                        match (&res, &km.cur) {
                            (Ok(kvs), Some((mv, _))) if kvs.len() == 1 && kvs[0].value == *mv => {
                                km.cur = None;
                                km.epoch += 1;
                                class = "pdelete:ok".into();
                            }
                            (Ok(kvs), None) if kvs.is_empty() => class = "pdelete:absent".into(),
                            _ => violation = Some(format!("pdelete({k}): impl={:?} reference={:?}", res.as_ref().map(|k| k.len()).map_err(|e| err_code(e)), km.cur)),
                        }
                    }
                    Instr::Delete(k) => {
                        let res = core.wb.delete(k.to_string(), cid(c)).await;
                        let km = model.entry(k).or_default();
                        match (&res, &km.cur) {
                            (Ok(v), Some((mv, _))) if v == mv => {
                                km.cur = None;
                                km.epoch += 1;
                                class = "delete:ok".into();
                            }
                            (Err(_), None) => class = "delete:absent".into(),
                            _ => violation = Some(format!("delete({k}): impl={:?} reference={:?}", res.as_ref().map_err(|e| err_code(e)), km.cur)),
                        }
                    }
                }
                if violation.is_some() {
                    if !last {
                        panic!("MACHINERY: prefix violated on replay: {violation:?}");
                    }
                    break;
                }
            }
            // the stored value reflects every acknowledged update: it is exactly the reference's
            for (k, km) in &model {
                let got = core.wb.cget(&k.to_string()).ok();
                let want = km.cur.as_ref().map(|(v, ver)| (v.clone(), ver.unwrap_or(0)));
                if got != want && violation.is_none() {
                    violation = Some(format!("final state of {k}: impl={got:?} reference={want:?}"));
                }
            }
            let state = format!(
                "{}|{:?}|{:?}",
                core.snapshot()["store"]["data"],
                locals.iter().map(|l| (l.pc, l.last.clone(), l.seen.clone())).collect::<Vec<_>>(),
                model.iter().map(|(k, m)| (*k, m.epoch)).collect::<Vec<_>>()
            );
            Some(StepOut {
                fingerprint: hash_str(&state),
                verdict: match violation {
                    Some(v) => Verdict::Violation(v),
                    None => Verdict::Ok,
                },
                class,
            })
        })
    }
}

pub fn cycles(key: &'static str, rounds: usize) -> Vec<Instr> {
    let mut p = vec![];
    for _ in 0..rounds {
        p.push(Instr::CGet(key));
        p.push(Instr::CSetFromLast(key));
    }
    p
}

/// (name, scenario, total program length)
pub fn scenarios(tier: &str) -> Vec<(String, CasScenario)> {
    let mut v = vec![];
    let plain_writer = vec![Instr::Set("x")];
    let deleter = vec![Instr::Delete("x")];
    let rogue = vec![
        Instr::CGet("x"),
        Instr::CSetOffset("x", -1),
        Instr::CSetOffset("x", 1),
        Instr::CSetAbs("x", u64::MAX),
        Instr::CSetAbs("x", 0),
    ];
    v.push((
        "2x2+set+delete".to_owned(),
        CasScenario { programs: vec![cycles("x", 2), cycles("x", 2), plain_writer.clone(), deleter.clone()], setup_import: None, server_actor: None },
    ));
    v.push((
        "3x1+rogue".to_owned(),
        CasScenario { programs: vec![cycles("x", 1), cycles("x", 1), cycles("x", 1), rogue.clone()], setup_import: None, server_actor: None },
    ));
    v.push((
        "two-keys".to_owned(),
        CasScenario {
            programs: vec![
                vec![Instr::CGet("x"), Instr::CGet("y"), Instr::CSetFromLast("x"), Instr::CSetFromLast("y")],
                vec![Instr::CGet("y"), Instr::CGet("x"), Instr::CSetFromLast("y"), Instr::CSetFromLast("x")],
                vec![Instr::Delete("y")],
            ],
            setup_import: None,
            server_actor: None,
        },
    ));
    // value-preserving csets still consume the version
    v.push((
        "same-value".to_owned(),
        CasScenario {
            programs: vec![
                vec![Instr::CGet("x"), Instr::CSetFromLast("x"), Instr::CGet("x"), Instr::CSetSameValue("x")],
                vec![Instr::CGet("x"), Instr::CSetSameValue("x"), Instr::CGet("x"), Instr::CSetFromLast("x")],
                vec![Instr::Set("x")],
            ],
            setup_import: None,
            server_actor: None,
        },
    ));
    // keys inside each other: refused and accepted compare-and-sets below and above a CAS key (a
    // refused write creates and removes nodes on its way) must not disturb that key's version chain
    v.push((
        "nested-keys".to_owned(),
        CasScenario {
            programs: vec![
                cycles("x", 2),
                vec![Instr::CSetAbs("x/y", 3), Instr::CSetAbs("x/y", 0), Instr::CSetAbs("x/y/z", 2), Instr::Delete("x/y")],
                vec![Instr::CSetAbs("x/y/z", 5), Instr::CGet("x"), Instr::CSetFromLast("x")],
            ],
            setup_import: None,
            server_actor: None,
        },
    ));
    // the server's own client writes plainly in between: refused like any plain set on a CAS value
    v.push((
        "server-writer".to_owned(),
        CasScenario { programs: vec![cycles("x", 2), cycles("x", 1), vec![Instr::Set("x"), Instr::Set("x")]], setup_import: None, server_actor: Some(2) },
    ));
    // the key disappears through a pattern delete between compare-and-set cycles
    v.push((
        "pdelete".to_owned(),
        CasScenario { programs: vec![cycles("x", 2), cycles("x", 1), vec![Instr::PDelete("x"), Instr::PDelete("x")]], setup_import: None, server_actor: None },
    ));
    v.push((
        "u64-boundary".to_owned(),
        CasScenario {
            programs: vec![cycles("x", 2), cycles("x", 1), vec![Instr::CSetAbs("x", u64::MAX), Instr::CSetAbs("x", u64::MAX - 1)]],
            setup_import: Some(format!(r#"{{"data":{{"t":{{"x":{{"v":{{"Cas":[0,{}]}}}}}}}}}}"#, u64::MAX - 1)),
            server_actor: None,
        },
    ));
    if tier == "thorough" {
        v.push((
            "3x2+set+delete".to_owned(),
            CasScenario {
                programs: vec![cycles("x", 2), cycles("x", 2), cycles("x", 2), plain_writer, deleter],
                setup_import: None,
                server_actor: None,
            },
        ));
        v.push((
            "2x3+rogue".to_owned(),
            CasScenario { programs: vec![cycles("x", 3), cycles("x", 3), rogue], setup_import: None, server_actor: None },
        ));
    }
    v
}
