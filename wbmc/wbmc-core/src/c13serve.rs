//! C13 conformance: the same request lines through the real `serve()` loop over a unix socket
//! pair, written in one burst before anything is read (pipelined), compared per transaction id
//! with the protocol table applied sequentially.

use crate::{model::*, ops::*, real::*, session::*};
use mc::{Scenario, StepOut, Verdict, util::hash_str};
use serde_json::{Value, json};
use std::collections::BTreeMap;
use tokio::{
    io::{AsyncWriteExt, Interest},
    net::UnixStream,
    sync::mpsc,
};
use tosub::SubsystemHandle;
use worterbuch::{server::CloneableWbApi, verif::{WbFunction, Worterbuch}};
use worterbuch_common::{ClientMessage as CM, ServerMessage as SM};

pub struct ServeScenario {
    pub lines: Vec<Line>,
    pub candidates: Vec<Flags>,
}

async fn subsystem() -> SubsystemHandle {
    let (tx, mut rx) = mpsc::channel::<SubsystemHandle>(1);
    tokio::spawn(async move {
        tosub::build_root("wbmc")
            .catch_no_signals()
            .no_shutdown_on_stdin_close()
            .start(move |s: SubsystemHandle| async move {
                tx.send(s.clone()).await.ok();
                s.shutdown_requested().await;
                Ok::<(), miette::Error>(())
            })
            .await
            .ok();
    });
    loop {
        if let Ok(s) = rx.try_recv() {
            return s;
        }
        tokio::task::yield_now().await;
    }
}

fn decode(l: &Line) -> Option<CM> {
    match l {
        Line::Msg(m) => Some(m.clone()),
        Line::Raw(s) => serde_json::from_str::<Option<CM>>(s).ok().flatten(),
    }
}

fn text(l: &Line) -> String {
    match l {
        Line::Msg(m) => serde_json::to_string(m).expect("encode"),
        Line::Raw(s) => s.clone(),
    }
}

impl Scenario for ServeScenario {
    fn num_ops(&self) -> usize {
        self.lines.len()
    }
    fn op_json(&self, op: u16) -> Value {
        json!(text(&self.lines[op as usize]))
    }
    fn run(&self, history: &[u16]) -> Option<StepOut> {
        // duplicate subscription ids are outside the statements
        let mut seen = std::collections::BTreeSet::new();
        for o in history {
            if let Some(m) = decode(&self.lines[*o as usize]) {
                let t = match &m {
                    CM::Subscribe(x) => Some(x.transaction_id),
                    CM::PSubscribe(x) => Some(x.transaction_id),
                    CM::SubscribeLs(x) => Some(x.transaction_id),
                    _ => None,
                };
                if let Some(t) = t {
                    if !seen.insert(t) {
                        return None;
                    }
                }
            }
        }
        let rt = crate::c20::new_runtime();
        let out = rt.block_on(async {
            let cfg = base_config();
            let (api_tx, mut api_rx) = mpsc::channel::<WbFunction>(cfg.channel_buffer_size);
            let api = CloneableWbApi::new(api_tx, cfg.clone());
            let mut wb = Worterbuch::with_config(cfg.clone());
            let core = tokio::spawn(async move {
                while let Some(f) = api_rx.recv().await {
                    worterbuch::verif::process_api_call(&mut wb, f).await;
                }
            });
            let subsys = subsystem().await;
            let (server_end, mut client_end) = UnixStream::pair().expect("MACHINERY: socket pair");
            let s2 = subsys.clone();
            let api2 = api.clone();
            let served = tokio::spawn(async move {
                worterbuch::verif::unix::serve(&s2, cid(0), api2, server_end).await.ok();
            });
            crate::c20::spin(40).await;
            // the whole burst before reading anything
            let mut burst = String::new();
            for o in history {
                burst.push_str(&text(&self.lines[*o as usize]));
                burst.push('\n');
            }
            let w = tokio::spawn(async move {
                let r = client_end.write_all(burst.as_bytes()).await;
                (client_end, r.is_ok())
            });
            let mut spins = 0;
            while !w.is_finished() && spins < 5000 {
                tokio::task::yield_now().await;
                spins += 1;
            }
            let (client_end, _) = match w.await {
                Ok(x) => x,
                Err(_) => panic!("MACHINERY: burst writer failed"),
            };
            // read until nothing arrives for a while
            let mut data: Vec<u8> = vec![];
            let mut idle = 0;
            let mut buf = vec![0u8; 65536];
            while idle < 300 {
                tokio::task::yield_now().await;
                let ready = client_end.ready(Interest::READABLE);
                tokio::pin!(ready);
                let r = futures_lite_poll(&mut ready).await;
                if r {
                    match client_end.try_read(&mut buf) {
                        Ok(0) => break,
                        Ok(n) => {
                            data.extend_from_slice(&buf[..n]);
                            idle = 0;
                            continue;
                        }
                        Err(_) => {}
                    }
                }
                idle += 1;
            }
            if core.is_finished() {
                return Some(StepOut {
                    fingerprint: 0,
                    verdict: Verdict::Violation(format!("the core task ended: {}", mc::util::take_last_panic().unwrap_or_default())),
                    class: "core-down".into(),
                });
            }
            let mut got: Vec<SM> = vec![];
            for l in String::from_utf8_lossy(&data).lines() {
                match serde_json::from_str::<SM>(l) {
                    Ok(m) => got.push(m),
                    Err(e) => {
                        return Some(StepOut { fingerprint: 0, verdict: Verdict::Violation(format!("undecodable line from the server: {l:?} ({e})")), class: "garbage".into() });
                    }
                }
            }
            // the reference: the same lines one after the other
            let mut verdict = None;
            let mut first_err = String::new();
            for f in &self.candidates {
                let (mut model, _) = PModel::new(&[0]);
                let mut merged: BTreeMap<u64, ExpTid> = BTreeMap::new();
                let mut requests_per_tid: BTreeMap<u64, usize> = BTreeMap::new();
                for o in history {
                    if !model.sessions[0].alive {
                        break;
                    }
                    let line = &self.lines[*o as usize];
                    let (exp, next) = match decode(line) {
                        Some(m) => model.message(0, &m, f),
                        None => model.close(0, f),
                    };
                    model = next;
                    if let Some(e) = exp.get(&0) {
                        for (tid, x) in e {
                            *requests_per_tid.entry(*tid).or_default() += 1;
                            let m = merged.entry(*tid).or_default();
                            for b in &x.seq {
                                let mut b = b.clone();
                                for t in b.iter_mut() {
                                    if t == "ackorerr" {
                                        *t = if got.iter().any(|g| matches!(g, SM::Err(e) if e.transaction_id == *tid)) { "err:{}".into() } else { "ack".into() };
                                    }
                                }
                                m.seq.push(b);
                            }
                            m.is_stream |= x.is_stream;
                            m.single_message |= x.single_message;
                            if x.ls.is_some() {
                                m.ls = x.ls.clone();
                            }
                        }
                    }
                }
                // a transaction id used by several requests of the burst: which answer belongs to which
                // request cannot be told, and answers that come from a spawned task (a granted
                // acquireLock) may overtake later ones - the tokens are compared as one unordered batch
                for (tid, m) in merged.iter_mut() {
                    if requests_per_tid.get(tid).copied().unwrap_or(0) > 1 && !m.is_stream {
                        let all: Vec<String> = m.seq.drain(..).flatten().collect();
                        m.seq = vec![all];
                        m.single_message = false;
                    }
                }
                // answers to requests issued with the id of a stream are mixed into it: counts only
                for m in merged.values_mut() {
                    if m.is_stream {
                        m.single_message = false;
                    }
                }
                // after a line that ends the session nothing more is asserted about what was
                // already in flight
                match compare_session(&got, &merged, "pipelined session") {
                    Ok(()) => {
                        verdict = Some(f.signatures());
                        break;
                    }
                    Err(e) => {
                        if first_err.is_empty() {
                            first_err = e;
                        }
                    }
                }
            }
            subsys.request_global_shutdown();
            drop(client_end);
            crate::c20::spin(20).await;
            served.abort();
            Some(StepOut {
                fingerprint: hash_str(&format!("{history:?}")),
                verdict: match verdict {
                    None => Verdict::Violation(first_err),
                    Some(sigs) if sigs.is_empty() => Verdict::Ok,
                    Some(sigs) => Verdict::Known(sigs.into_iter().map(|s| (s.to_owned(), "pipelined burst behaves as the finding says".to_owned())).collect()),
                },
                class: format!("msgs:{}", got.len().min(12)),
            })
        });
        drop(rt);
        out
    }
}

/// poll a future exactly once
async fn futures_lite_poll<F: std::future::Future + Unpin>(f: &mut F) -> bool {
    use std::task::Poll;
    std::future::poll_fn(|cx| match std::pin::Pin::new(&mut *f).poll(cx) {
        Poll::Ready(_) => Poll::Ready(true),
        Poll::Pending => Poll::Ready(false),
    })
    .await
}

pub fn scenario(known: &mc::Known, full: bool) -> ServeScenario {
    let msgs = if full { crate::props_session::request_lines(0) } else { crate::props_session::core_request_lines(0) };
    let lines = msgs
        .into_iter()
        // ls subscriptions may legitimately repeat lists; their streams are compared in the
        // line-at-a-time scenarios
        .filter(|m| !matches!(m, CM::SubscribeLs(_) | CM::UnsubscribeLs(_)))
        .map(Line::Msg)
        .collect();
    ServeScenario { lines, candidates: Flags::candidates(&known.open_for("C13")) }
}
