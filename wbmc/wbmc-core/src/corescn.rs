//! Generic scenario: histories of core requests executed on the real `Worterbuch` and on the
//! reference model, compared step by step (answer, events, child lists, lock confirmations,
//! data tree) and by a full read-back after the last step.

use crate::{model::*, ops::*, real::*};
use mc::{Scenario, StepOut, Verdict, util::hash_str};
use serde_json::{Value, json};
use std::collections::BTreeSet;

pub struct CoreScenario {
    pub property: String,
    /// executed (and checked against the documented behaviour) before every history
    pub setup: Vec<Op>,
    pub ops: Vec<Op>,
    pub probe: Probe,
    /// signatures of open known findings for this property
    pub open: BTreeSet<String>,
    pub candidates: Vec<Flags>,
    /// at most this many concurrent value/pattern/ls subscriptions (bounds the state space)
    pub max_subs: usize,
}

impl CoreScenario {
    pub fn new(property: &str, setup: Vec<Op>, ops: Vec<Op>, probe: Probe, open: BTreeSet<String>) -> Self {
        let candidates = Flags::candidates(&open);
        CoreScenario { property: property.to_owned(), setup, ops, probe, open, candidates, max_subs: usize::MAX }
    }
}

/// Compare what the implementation showed with what the reference expects for one step.
pub fn compare(obs: &Obs, m: &MObs, after: &RefCore) -> Result<(), String> {
    let ans = obs.answer.as_ref().expect("answer");
    if !(m.expect.accepts(ans) || m.alt_expect.as_ref().map(|e| e.accepts(ans)).unwrap_or(false)) {
        return Err(format!("answer: impl={ans:?} reference={:?}", m.expect));
    }
    let ids: BTreeSet<SubKey> = obs.events.keys().chain(m.events.keys()).cloned().collect();
    for id in ids {
        if m.dont_care.contains(&id) {
            continue;
        }
        let flat: Vec<Ev> = obs.events.get(&id).map(|b| b.concat()).unwrap_or_default();
        let empty = vec![];
        let batches = m.events.get(&id).unwrap_or(&empty);
        if !events_match(&flat, batches) {
            return Err(format!(
                "events of subscription {}#{}: impl={flat:?} reference={batches:?}",
                cname(id.0),
                id.1
            ));
        }
    }
    if obs.closed != m.closed {
        return Err(format!("closed subscriptions: impl={:?} reference={:?}", obs.closed, m.closed));
    }
    if obs.ls_closed != m.ls_closed {
        return Err(format!("closed ls subscriptions: impl={:?} reference={:?}", obs.ls_closed, m.ls_closed));
    }
    let ids: BTreeSet<SubKey> = obs.ls_last.keys().chain(m.ls_sent.keys()).cloned().collect();
    for id in ids {
        if m.dont_care.contains(&id) {
            continue;
        }
        match (obs.ls_last.get(&id), m.ls_sent.get(&id)) {
            (Some(i), Some(r)) if i == r => {}
            (Some(i), None) if after.ls_last.get(&id) == Some(i) => { /* duplicate of the current list */ }
            (i, r) => {
                return Err(format!(
                    "ls subscription {}#{}: impl last list={i:?} reference sent={r:?} (reference current={:?})",
                    cname(id.0),
                    id.1,
                    after.ls_last.get(&id)
                ));
            }
        }
    }
    let mut acq = obs.acq.clone();
    acq.sort();
    if acq != m.acq {
        return Err(format!("acquire-lock resolutions: impl={acq:?} reference={:?}", m.acq));
    }
    Ok(())
}

impl Scenario for CoreScenario {
    fn num_ops(&self) -> usize {
        self.ops.len()
    }

    fn op_json(&self, op: u16) -> Value {
        self.ops[op as usize].to_json()
    }

    fn run(&self, history: &[u16]) -> Option<StepOut> {
        block_on(async {
            let mut real = RealCore::new();
            let mut model = RefCore::default();
            let doc = Flags::default();
            for op in &self.setup {
                let obs = real.apply(op).await;
                let (m, next) = model.step(op, &doc);
                if let Err(e) = compare(&obs, &m, &next) {
                    panic!("MACHINERY: setup step {op:?} deviates from the reference: {e}");
                }
                model = next;
            }
            let mut known: Vec<(String, String)> = vec![];
            let mut class = String::new();
            for (i, o) in history.iter().enumerate() {
                let last = i + 1 == history.len();
                let op = &self.ops[*o as usize];
                let too_many = matches!(op, Op::Subscribe(..) | Op::PSubscribe(..) | Op::SubscribeLs(..))
                    && model.subs.len() + model.ls_subs.len() >= self.max_subs;
                if !model.enabled(op) || too_many {
                    if last {
                        return None;
                    }
                    panic!("MACHINERY: prefix op {op:?} not enabled on replay");
                }
                let snap_before = if last { Some(real.snapshot()) } else { None };
                let obs = real.apply(op).await;
                let snap = real.snapshot();
                let impl_tree = &snap["store"]["data"];
                let impl_len = snap["store"]["len"].as_u64().unwrap_or(u64::MAX);
                let mut chosen: Option<(Flags, MObs, RefCore)> = None;
                let mut first_err = String::new();
                for f in &self.candidates {
                    let (m, next) = model.step(op, f);
                    let r = compare(&obs, &m, &next).and_then(|_| {
                        if next.data_tree() != *impl_tree {
                            Err(format!(
                                "stored tree after the step: impl={} reference={}",
                                impl_tree,
                                next.data_tree()
                            ))
                        } else if next.data.len() as u64 != impl_len {
                            Err(format!("entry count: impl={impl_len} reference={}", next.data.len()))
                        } else {
                            Ok(())
                        }
                    });
                    match r {
                        Ok(()) => {
                            chosen = Some((*f, m, next));
                            break;
                        }
                        Err(e) => {
                            if first_err.is_empty() {
                                first_err = e;
                            }
                        }
                    }
                }
                let Some((flags, m, next)) = chosen else {
                    if !last {
                        panic!("MACHINERY: prefix step {op:?} no longer matches any candidate: {first_err}");
                    }
                    return Some(StepOut {
                        fingerprint: 0,
                        verdict: Verdict::Violation(format!("step {op:?}: {first_err}")),
                        class: format!("{}:{}", op.kind(), obs.answer.as_ref().map(Ans::class).unwrap_or_default()),
                    });
                };
                if last {
                    class = format!("{}:{}", op.kind(), obs.answer.as_ref().map(Ans::class).unwrap_or_default());
                    for s in flags.signatures() {
                        known.push((s.to_owned(), format!("step {op:?} behaves as the finding says, not as documented")));
                    }
                    // a refused request changes nothing
                    if m.expect.is_err() && obs.answer.as_ref().map(Ans::is_err).unwrap_or(false) {
                        let keep = matches!(op, Op::ReleaseLock(..));
                        if !keep && snap_before.as_ref() != Some(&snap) {
                            return Some(StepOut {
                                fingerprint: 0,
                                verdict: Verdict::Violation(format!(
                                    "step {op:?} was answered with an error but changed the server state: before={} after={}",
                                    snap_before.unwrap_or_default(),
                                    snap
                                )),
                                class,
                            });
                        }
                    }
                    // full read-back
                    let rb = real.readback(&self.probe);
                    let mut rb_ok = None;
                    let mut rb_err = String::new();
                    for f in &self.candidates {
                        let mrb = next.readback(&self.probe, f);
                        if mrb == rb {
                            rb_ok = Some(*f);
                            break;
                        } else if rb_err.is_empty() {
                            rb_err = rb.diff(&mrb);
                        }
                    }
                    match rb_ok {
                        None => {
                            return Some(StepOut {
                                fingerprint: 0,
                                verdict: Verdict::Violation(format!("read-back after {op:?}: {rb_err}")),
                                class,
                            });
                        }
                        Some(f) => {
                            for s in f.signatures() {
                                if !known.iter().any(|(k, _)| k == s) {
                                    known.push((s.to_owned(), format!("read-back after {op:?}: {rb_err}")));
                                }
                            }
                        }
                    }
                    // the parts of the snapshot the reference can predict exactly
                    if let Err(e) = check_tables(&snap, &next) {
                        return Some(StepOut { fingerprint: 0, verdict: Verdict::Violation(format!("after {op:?}: {e}")), class });
                    }
                    let zombies: Vec<SubKey> = next.subs.iter().filter(|s| s.zombie).map(|s| s.id).chain(next.ls_subs.iter().filter(|s| s.zombie).map(|s| s.id)).collect();
                    let fp = hash_str(&format!("{}|{:?}|{:?}", snap, next.ls_last, zombies));
                    model = next;
                    let _ = &model;
                    return Some(StepOut {
                        fingerprint: fp,
                        verdict: if known.is_empty() { Verdict::Ok } else { Verdict::Known(known) },
                        class,
                    });
                }
                model = next;
            }
            // empty history
            Some(StepOut { fingerprint: hash_str(&real.snapshot().to_string()), verdict: Verdict::Ok, class })
        })
    }
}

/// Subscription, ls-subscription, publish-stream and lock tables of the snapshot must be exactly
/// what the reference holds (nothing left behind, nothing missing).
pub fn check_tables(snap: &Value, m: &RefCore) -> Result<(), String> {
    let mut want = BTreeSet::new();
    for s in &m.subs {
        want.insert(format!("{}#{}", cid(s.id.0), s.id.1));
    }
    let have: BTreeSet<String> = snap["subscriptions"].as_object().map(|o| o.keys().cloned().collect()).unwrap_or_default();
    if want != have {
        return Err(format!("subscription table: impl={have:?} reference={want:?}"));
    }
    let mut want = BTreeSet::new();
    for s in &m.ls_subs {
        want.insert(format!("{}#{}", cid(s.id.0), s.id.1));
    }
    let have: BTreeSet<String> = snap["ls_subscriptions"].as_object().map(|o| o.keys().cloned().collect()).unwrap_or_default();
    if want != have {
        return Err(format!("ls-subscription table: impl={have:?} reference={want:?}"));
    }
    // registered subscribers in the routing trees
    let mut have = BTreeSet::new();
    collect_subscribers(&snap["subscribers"], &mut have);
    // (a subscriber whose receiver is gone may or may not have been dropped from the tree yet)
    let mut want = BTreeSet::new();
    let mut maybe = BTreeSet::new();
    for s in &m.subs {
        if s.zombie {
            maybe.insert(format!("{}#{}", cid(s.id.0), s.id.1));
        } else {
            want.insert(format!("{}#{}", cid(s.id.0), s.id.1));
        }
    }
    if !want.is_subset(&have) || !have.iter().all(|h| want.contains(h) || maybe.contains(h)) {
        return Err(format!("subscriber routing tree: impl={have:?} reference={want:?} (+ possibly {maybe:?})"));
    }
    let mut have = BTreeSet::new();
    collect_ls_subscribers(&snap["store"]["ls_subscribers"], &mut have);
    let mut want = BTreeSet::new();
    let mut maybe = BTreeSet::new();
    for s in &m.ls_subs {
        if s.zombie {
            maybe.insert(format!("{}#{}", cid(s.id.0), s.id.1));
        } else {
            want.insert(format!("{}#{}", cid(s.id.0), s.id.1));
        }
    }
    if !want.is_subset(&have) || !have.iter().all(|h| want.contains(h) || maybe.contains(h)) {
        return Err(format!("ls subscriber tree: impl={have:?} reference={want:?} (+ possibly {maybe:?})"));
    }
    // publish streams
    let mut want = BTreeSet::new();
    for ((c, tid), k) in &m.spub {
        want.insert(format!("{}#{}={}", cid(*c), tid, k));
    }
    let mut have = BTreeSet::new();
    if let Some(o) = snap["spub_keys"].as_object() {
        for (c, keys) in o {
            if let Some(keys) = keys.as_object() {
                for (tid, k) in keys {
                    have.insert(format!("{}#{}={}", c, tid.trim_start_matches('0').parse::<u64>().unwrap_or(0), k.as_str().unwrap_or("")));
                }
            }
        }
    }
    if want != have {
        return Err(format!("publish streams: impl={have:?} reference={want:?}"));
    }
    // locks: holder and waiting order
    let mut have = BTreeSet::new();
    collect_locks(&snap["store"]["locks"], &mut vec![], &mut have);
    let mut want = BTreeSet::new();
    for (p, l) in &m.locks {
        let q: Vec<Value> = l.queue.iter().map(|(c, pend)| json!([cid(*c).to_string(), pend.len()])).collect();
        want.insert(format!("{}:{}:{}", p.join("/"), cid(l.holder), Value::Array(q)));
    }
    if want != have {
        return Err(format!("lock table: impl={have:?} reference={want:?}"));
    }
    Ok(())
}

fn collect_subscribers(node: &Value, out: &mut BTreeSet<String>) {
    if let Some(a) = node["s"].as_array() {
        for s in a {
            if let Some(s) = s.as_str() {
                out.insert(s.split(':').next().unwrap_or("").to_owned());
            }
        }
    }
    if let Some(t) = node["t"].as_object() {
        for c in t.values() {
            collect_subscribers(c, out);
        }
    }
}

fn collect_ls_subscribers(node: &Value, out: &mut BTreeSet<String>) {
    if let Some(a) = node["ls"].as_array() {
        for s in a {
            if let Some(s) = s.as_str() {
                out.insert(s.split('@').next().unwrap_or("").to_owned());
            }
        }
    }
    if let Some(t) = node["t"].as_object() {
        for c in t.values() {
            collect_ls_subscribers(c, out);
        }
    }
}

fn collect_locks(node: &Value, path: &mut Vec<String>, out: &mut BTreeSet<String>) {
    if let Some(v) = node.get("v") {
        out.insert(format!(
            "{}:{}:{}",
            path.join("/"),
            v["holder"].as_str().unwrap_or(""),
            v["candidates"]
        ));
    } else if node.get("t").is_none() && !path.is_empty() {
        out.insert(format!("{}:<empty lock node>", path.join("/")));
    }
    if let Some(t) = node.get("t").and_then(|t| t.as_object()) {
        for (k, c) in t {
            path.push(k.clone());
            collect_locks(c, path, out);
            path.pop();
        }
    }
}
